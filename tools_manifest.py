#!/venv/bin/python
"""Regenerates MANIFEST.json from the property modules that exist (so it is always valid)."""
import json, os, sys, importlib
ROOT = os.path.dirname(os.path.abspath(__file__))
sys.path.insert(0, ROOT)
props = [json.loads(l) for l in open(os.path.join(ROOT, "properties.jsonl"))]
BASE = json.load(open("/root/.vp/BASELINE.json")) if os.path.exists("/root/.vp/BASELINE.json") else None
checks = []
na = []
NA_REASONS = json.load(open(os.path.join(ROOT, "not_applicable.json"))) if os.path.exists(os.path.join(ROOT, "not_applicable.json")) else {}
for p in props:
    pid = p["id"]
    path = os.path.join(ROOT, "av", "props", pid.lower() + ".py")
    if not os.path.exists(path):
        na.append({"property_id": pid, "reason": NA_REASONS.get(pid, "runtime monitor for this property is not built yet in this round (planned, see DESIGN.md section 6); nothing is claimed for it")})
        continue
    src = open(path).read()
    # read MANIFEST_ENTRY dict literal from the module without importing atomica
    ns = {}
    import ast
    tree = ast.parse(src)
    entry = None
    for node in tree.body:
        if isinstance(node, ast.Assign) and any(getattr(t, "id", None) == "MANIFEST_ENTRY" for t in node.targets):
            entry = ast.literal_eval(node.value)
    if entry is None:
        entry = {}
    checks.append({
        "property_id": pid,
        "quick_cmd": "./check %s --tier quick" % pid,
        "thorough_cmd": "./check %s --tier thorough" % pid,
        "evidence_file": "evidence/%s.json" % pid,
        "replay_cmd_template": "./check %s --replay {path}" % pid,
        "engine": "av",
        "level_claimed": {"category": entry.get("category", "exploration"), "text": entry.get("text", ""), "design_ref": "DESIGN.md section 6, " + pid},
        "level_note": entry.get("note", ""),
        "technique": entry.get("technique", "runtime monitoring"),
    })
manifest = {
    "version": 1,
    "setup_cmd": "/venv/bin/python -m av.setup",
    "hooks": {
        "guard": "ATOMICA_VERIF",
        "enable": "no build step: checks import atomica from /repo's working tree (PYTHONPATH) and attach class-level wrappers from the harness when ATOMICA_VERIF=1 is set in the worker processes; no hook code lives in /repo",
        "baseline_off_cmd": "cd /repo && /venv/bin/python -m pytest -ra -q -p no:cacheprovider --timeout=900 --continue-on-collection-errors",
        "source_commits": [],
        "add_only": True,
    },
    "engines": [{"name": "av", "path": "av/", "serves_properties": [c["property_id"] for c in checks], "kind_free_text": "runtime monitoring harness: workload generator (real xlsx path), class-level wrappers / recorders on the real atomica objects, offline checkers over recorded Results and call histories, sharded subprocess runner"}],
    "checks": checks,
    "not_applicable": na,
    "notes": "All checks honour VERIF_SEED and VERIF_TIER. Exit 0 held / 1 VIOLATION / 3 INCONCLUSIVE (deciding monitor not reached, shards lost) / 2 harness error. Known findings: known_findings.json.",
}
json.dump(manifest, open(os.path.join(ROOT, "MANIFEST.json"), "w"), indent=1)
print("MANIFEST.json: %d checks, %d not_applicable" % (len(checks), len(na)))
try:
    import jsonschema
    jsonschema.validate(manifest, json.load(open("/root/.vp/MANIFEST.schema.json")))
    print("schema ok")
except ImportError:
    pass

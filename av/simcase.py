"""Shared driver: spec -> real project -> run_sim -> View, with the domain exclusions of C01-C05."""

import numpy as np

from av import gen, ref


class Excluded(Exception):
    def __init__(self, reason):
        self.reason = reason


def first_bad(arrs):
    idx = None
    for a in arrs:
        a = np.asarray(a, dtype=float)
        bad = ~np.isfinite(a)
        if bad.any():
            i = int(np.argmax(bad))
            idx = i if idx is None else min(idx, i)
    return idx


def simulate(spec, R, progset=None, instructions=None, project=None):
    """Returns (P, result, view).  Raises Excluded for runs outside the properties' domain (they are
    counted, and it is checked that ill-posed junction runs are *flagged* by NaN flows)."""
    P = project if project is not None else gen.build_project(spec)
    result = P.run_sim(P.parsets[0], progset=progset, progset_instructions=instructions)
    view = ref.View(result)
    R.count("runs")
    # --- a plain junction that receives nobody has nothing to distribute, whatever its proportions: its outflows are 0, not NaN
    for c in view.comps:
        if c["kind"] == "junc" and not c["residual_junction"] and c["out"] and all(l["par"] is not None for l in c["out"]):
            psum = np.sum([np.maximum(0.0, np.asarray(l["par"].vals, dtype=float)) for l in c["out"]], axis=0)
            idle = (psum == 0) & (c["IN"] == 0)
            idle[-1] = False  # flows at the last index are not computed
            if idle.any():
                R.count("idle_junction_steps_with_zero_proportions", int(idle.sum()))
                outv = np.sum([l["vals"] for l in c["out"]], axis=0)
                if np.any(idle & ~(outv == 0)):
                    i = int(np.argmax(idle & ~(outv == 0)))
                    R.bad("idle-junction-emits-nothing", "C01:idle-junction-with-zero-proportions-emits-NaN", {"junction": c["key"], "index": i, "inflow": float(c["IN"][i]), "outflows": [float(l["vals"][i]) for l in c["out"]]})
                else:
                    R.ok("idle-junction-emits-nothing", int(idle.sum()))
    # --- domain: plain junction receiving people (or initialised non-empty) while proportions sum <= 0
    ill = view.ill_posed_junctions()
    ps = P.parsets[0]
    for c in view.comps:
        if c["kind"] == "junc" and not c["residual_junction"] and c["name"] in ps.pars and c["out"]:
            par = ps.pars[c["name"]]
            if c["pop"] in par.ts and par.has_values(c["pop"]):
                init = par.interpolate(view.t[:1], c["pop"])[0] * par.y_factor[c["pop"]] * par.meta_y_factor
                psum0 = sum(max(0.0, float(l["par"].vals[0])) for l in c["out"] if l["par"] is not None)
                if init > 0 and not (psum0 > 0):
                    ill.append((c, 0))
                elif init > 0 and not np.all(np.isfinite([cc["vals"][0] for cc in view.comps])):
                    # the flush divided by a zero proportion sum although the *recorded* proportions at index 0 are positive:
                    # possible only if the proportions changed between the flush and the recording, i.e. they are program
                    # driven or functions of the state.  Then the values in force at the flush are not observable from the
                    # Result; the run is flagged by NaN (as the domain restriction demands) and is not judged
                    fw_pars = view.fw.pars
                    unobservable = False
                    for l in c["out"]:
                        if l["par"] is None:
                            continue
                        nm = l["par"].name
                        if progset is not None and (nm, c["pop"]) in progset.covouts:
                            unobservable = True
                        if nm in fw_pars.index and isinstance(fw_pars.at[nm, "function"], str):
                            unobservable = True
                    if unobservable:
                        R.count("illposed_flush_with_state_dependent_proportions")
                        ill.append((c, 0))
    if ill:
        R.count("illposed_runs")
        flagged = any(not np.all(np.isfinite(l["vals"])) for l in view.links) or any(not np.all(np.isfinite(c["vals"])) for c in view.comps)
        if flagged:
            R.ok("illposed-run-is-flagged-by-NaN")
        else:
            # people arrived at a junction that sends nobody anywhere, and nothing is flagged: they vanished silently
            R.bad("illposed-run-is-flagged-by-NaN", "C01:illposed-junction-not-flagged", {"junction": ill[0][0]["key"], "index": ill[0][1]})
        raise Excluded("ill-posed junction")
    # --- domain: finite inputs.  A parameter that is non-finite no later than the first non-finite stock/flow
    tp = first_bad([p.vals for p in view.pars.values() if not (p.fcn_str and _is_output_only(p))])
    tc = first_bad([c["vals"] for c in view.comps] + [l["vals"] for l in view.links])
    if tp is not None and (tc is None or tp <= tc):
        R.count("nonfinite_parameter_runs")
        raise Excluded("non-finite parameter value (function)")
    return P, result, view


def simulate_case(case, R):
    """Generated spec or corpus model -> (P, result, view) with the same domain exclusions."""
    if case.get("kind") == "corpus":
        from av import corpus

        R.count("corpus_cases")
        try:
            P, progset, instr = corpus.build(case)
            out = simulate(None, R, progset=progset, instructions=instr, project=P)
        except Excluded:
            raise
        except Exception as e:
            if type(e).__name__ == "BadInitialization":
                R.count("corpus_bad_initialization")
                raise Excluded("perturbed databook cannot be initialised")
            raise
        R.count("corpus_runs[%s]" % case["framework"].split("/")[-1])
        R.count("corpus_mode[%s%s]" % (case["mode"], "+programs" if progset is not None else ""))
        return out
    ps = case.get("progspec")
    if ps is not None:
        P = gen.build_project(case["spec"])
        pset = gen.build_progset(ps, P.framework, P.data)
        R.count("generated_runs_with_programs")
        return simulate(case["spec"], R, progset=pset, instructions=gen.build_instructions(ps), project=P)
    return simulate(case["spec"], R)


def _is_output_only(p):
    return bool(p.fcn_str) and (":" in p.fcn_str)

"""
ModelSpec generator: random frameworks / databooks / settings, written through the real xlsx path.

A *spec* is a JSON-able dict.  `gen_spec(rng, profile)` draws one; `build_framework(spec)` writes the
framework workbook cell by cell with openpyxl and loads it with the real `ProjectFramework`;
`build_data` makes the databook with `ProjectData.new` and fills it; `build_project` wraps both in a
`Project` with the requested settings.  Nothing here is trusted by the monitors: they read the
structure back from the Result (link end points, units, timescales).
"""

import io
import math

import numpy as np

DTS = [1.0, 0.5, 0.25, 0.2, 0.1, 1 / 12, 1 / 52, 1 / 365, 0.3, 0.7, 1 / 3, 1 / 7]
TIMESCALES = [None, None, 1.0, 1 / 12, 1 / 52, 1 / 365, 0.5, 2.0]
VALUE_CLASSES = ["mild", "mild", "rates_high", "durations_tiny", "numbers_huge", "empty", "zero", "mixed_scale", "negative_functions", "binding_limits"]
POP_NAMES = ["popa", "popb", "popc", "popd"]

DEFAULT_PROFILE = dict(
    n_ord=(2, 6),
    p_source=0.5,
    n_sinks=(0, 2),
    n_junctions=(0, 3),
    p_residual=0.4,
    p_timed=0.4,
    p_group_junction=0.35,
    n_pops=(1, 3),
    p_transfer=0.5,
    p_function=0.5,
    p_timevarying=0.5,
    n_aux=(0, 3),
    n_characs=(1, 3),
    p_junction_init=0.35,
    steps=(3, 30),
    dts=DTS,
    value_classes=VALUE_CLASSES,
    p_offgrid_end=0.3,
    p_interaction=0.3,
    p_yfactor=0.3,
    allow_derivative=False,
    p_limits=0.4,
    p_targetable=0.0,
    p_aggregation=0.25,
)


def _r(rng, lo_hi):
    lo, hi = lo_hi
    return int(rng.integers(lo, hi + 1))


def _choice(rng, seq):
    return seq[int(rng.integers(0, len(seq)))]


def _f(x):
    """Make floats JSON/Excel friendly (plain python floats, rounded to 12 significant digits)."""
    if x is None:
        return None
    return float("%.12g" % float(x))


# ----------------------------------------------------------------------------------------------
# value sampling
# ----------------------------------------------------------------------------------------------


def sample_value(rng, fmt, vclass):
    """One data value for a parameter of the given format under a value class."""
    u = rng.random()
    if vclass == "zero":
        if fmt == "duration":
            return _f(10 ** rng.uniform(-1, 1))
        return 0.0
    if fmt in ("probability", "rate"):
        if vclass == "rates_high":
            return _f(10 ** rng.uniform(0, 4))
        if vclass == "mixed_scale":
            return _f(10 ** rng.uniform(-6, 2))
        return _f(rng.uniform(0, 1.5)) if u > 0.1 else 0.0
    if fmt == "duration":
        if vclass == "durations_tiny":
            return _f(10 ** rng.uniform(-6, -1))
        if vclass == "mixed_scale":
            return _f(10 ** rng.uniform(-4, 3))
        return _f(10 ** rng.uniform(-1, 1.3))
    if fmt == "number":
        if vclass == "numbers_huge":
            return _f(10 ** rng.uniform(3, 9))
        if vclass == "mixed_scale":
            return _f(10 ** rng.uniform(-6, 6))
        return _f(rng.uniform(0, 80)) if u > 0.1 else 0.0
    if fmt == "proportion":
        if u < 0.15:
            return 0.0
        if u < 0.25:
            return 1.0
        return _f(rng.uniform(0.01, 1.2))
    # dimensionless auxiliaries
    return _f(rng.uniform(0, 2))


def sample_popsize(rng, vclass):
    u = rng.random()
    if vclass == "zero":
        return 0.0
    if vclass == "empty" and u < 0.5:
        return 0.0
    if vclass == "mixed_scale":
        return _f(10 ** rng.uniform(-9, 9))
    if u < 0.08:
        return 0.0
    return _f(10 ** rng.uniform(0, 4))


# ----------------------------------------------------------------------------------------------
# function expressions
# ----------------------------------------------------------------------------------------------


def gen_function(rng, comps, characs, pars, negative_ok=False, scale=1.0):
    """A total expression (no NaN/inf on non-negative inputs) over the given names."""
    pool = list(comps) + list(characs)
    A = _choice(rng, pool) if pool else "1"
    B = _choice(rng, pool) if pool else "2"
    P = _choice(rng, pars) if pars else None
    k = _f(rng.uniform(0.05, 1.5) * scale)
    k2 = _f(rng.uniform(0.01, 0.5) * scale)
    forms = [
        "%s*%s/(%s+%s+1)" % (k, A, A, B),
        "%s*exp(-%s/1000)" % (k, A),
        "max(0, %s-%s*(t-2000))" % (k, k2),
        "%s*min(%s,%s)/(%s+1)" % (k, A, B, B),
        "%s*sqrt(%s)/(1+sqrt(%s))" % (k, A, B),
        "%s*(1+sin(t))/2" % k,
        "%s+%s*dt" % (k, k2),
        "%s*(%s>%s)+%s" % (k, A, B, k2),
        "%s*%s/(%s+%s)" % (k, A, A, B),  # safe division: 0/0 = 0
        "%s*floor(%s/10)/(1+floor(%s/10))" % (k, A, A),
    ]
    if P is not None:
        forms += ["%s*%s" % (k, P), "%s+%s*%s/(%s+1)" % (P, k2, A, A), "min(%s,%s)" % (P, k), "%s*%s/(%s+%s)" % (k, P, P, k2), "%s**2/(1+%s)" % (P, P)]
    if negative_ok:
        forms += ["%s-%s*%s" % (k, k2, A), "%s*(%s-%s)/(%s+%s+1)" % (k, A, B, A, B), "-%s" % k, "%s*cos(t)" % k]
        if P is not None:
            forms += ["%s-%s" % (k2, P)]
    return _choice(rng, forms)


# ----------------------------------------------------------------------------------------------
# structure
# ----------------------------------------------------------------------------------------------


def junction_closure(trans, juncs, start, direction):
    """Non-junction compartments reachable from `start` through junctions only, with the parameters of
    the final hop.  Mirrors the documented attachment rule (Timed-Transitions.rst)."""
    out = []
    seen = set()
    stack = [start]
    while stack:
        j = stack.pop()
        if j in seen:
            continue
        seen.add(j)
        for a, b, pars in trans:
            if direction == "down" and a == j:
                nxt = b
            elif direction == "up" and b == j:
                nxt = a
            else:
                continue
            if nxt in juncs:
                stack.append(nxt)
            else:
                out.append((nxt, pars))
    return out


def junction_status(spec):
    """For every junction: ('member', group) / ('free', None) / ('reject', None) / ('hazard', None).
    'hazard' = the loader assigns the junction to a duration group although an ungrouped (or flushing)
    compartment is attached, which makes the model die at run time (known finding, targeted by C18)."""
    juncs = {c["name"] for c in spec["comps"] if c["kind"] == "junc"}
    group_of = {}
    timed = {p["name"] for p in spec["pars"] if p.get("timed")}
    for a, b, pars in spec["trans"]:
        for p in _split(pars):
            if p in timed:
                group_of[a] = p
    res = {}
    for j in juncs:
        info = {}
        for direction in ("up", "down"):
            comps = junction_closure(spec["trans"], juncs, j, direction)
            groups = set()
            att = set()
            ungrouped = False
            for c, pars in comps:
                g = group_of.get(c)
                if g is None:
                    ungrouped = True
                    continue
                groups.add(g)
                for p in _split(pars):
                    if p == ">" or p not in timed:
                        att.add(g)
            info[direction] = (groups, att, ungrouped)
        ug, ua, uu = info["up"]
        dg, da, du = info["down"]
        if len(ua) == 1 and len(da) == 1 and ua == ug and da == dg and ua == da:
            # assigned to the group by the loader
            flush_in = any(group_of.get(c) is not None and any(p in timed for p in _split(pars)) for c, pars in junction_closure(spec["trans"], juncs, j, "up"))
            if uu or du or flush_in:
                res[j] = ("hazard", list(ua)[0])
            else:
                res[j] = ("member", list(ua)[0])
        elif (ua or da) and (ug & dg):
            res[j] = ("reject", None)
        else:
            res[j] = ("free", None)
    return res


def _split(pars):
    return [x.strip() for x in pars.split(",")] if pars != ">" else [">"]


def gen_spec(rng, profile=None):
    pf = dict(DEFAULT_PROFILE)
    if profile:
        pf.update(profile)
    for attempt in range(50):
        spec = _gen_spec_once(rng, pf)
        st = junction_status(spec)
        if all(v[0] in ("member", "free") for v in st.values()):
            spec["meta"]["junction_status"] = {k: v[0] for k, v in st.items()}
            return spec
    raise RuntimeError("generator could not produce a valid structure")


def _gen_spec_once(rng, pf):
    vclass = _choice(rng, pf["value_classes"])
    n_ord = _r(rng, pf["n_ord"])
    ords = ["c%d" % i for i in range(n_ord)]
    has_source = rng.random() < pf["p_source"]
    sinks = ["dead%d" % i for i in range(_r(rng, pf["n_sinks"]))]
    juncs = ["j%d" % i for i in range(_r(rng, pf["n_junctions"]))]

    comps = []
    for c in ords:
        comps.append({"name": c, "kind": "ord", "db": True})
    if has_source:
        comps.append({"name": "src", "kind": "src", "db": False})
    for c in sinks:
        comps.append({"name": c, "kind": "sink", "db": False})
    for c in juncs:
        comps.append({"name": c, "kind": "junc", "db": bool(rng.random() < pf["p_junction_init"])})

    pars = []
    trans = {}  # (from,to) -> [par names]
    par_sources = {}  # par -> set of source comps

    def new_par(prefix, fmt, **kw):
        name = "%s%d" % (prefix, sum(1 for p in pars if p["name"].startswith(prefix)))
        p = {"name": name, "format": fmt, "timescale": None, "min": None, "max": None, "function": None, "db": True, "timed": False, "targetable": False}
        p.update(kw)
        pars.append(p)
        return p

    def add_edge(a, b, pname):
        trans.setdefault((a, b), []).append(pname)
        par_sources.setdefault(pname, set()).add(a)

    link_formats = ["probability", "rate", "duration", "number"]

    # --- timed groups -------------------------------------------------------------------------
    groups = []
    group_of = {}
    if rng.random() < pf["p_timed"] and n_ord >= 2:
        n_groups = 1 if (n_ord < 4 or rng.random() < 0.7) else 2
        avail = list(ords)
        rng.shuffle(avail)
        for g in range(n_groups):
            size = min(len(avail) - 1, _r(rng, (1, 3)))
            if size < 1:
                break
            members = [avail.pop() for _ in range(size)]
            p = new_par("dur", "duration", timed=True, timescale=_choice(rng, [None, 1.0, 1 / 12, 1 / 52]))
            groups.append({"par": p["name"], "members": members})
            for m in members:
                group_of[m] = p["name"]
        # flush destinations: anything outside the group that is not a source (junctions handled below)
        for g in groups:
            for m in g["members"]:
                cands = [c for c in ords if group_of.get(c) != g["par"]] + sinks
                if not cands:
                    cands = sinks or [c for c in ords if c not in g["members"]]
                dest = _choice(rng, cands)
                add_edge(m, dest, g["par"])

    # --- ordinary edges -----------------------------------------------------------------------
    p_edge = min(0.9, 1.6 / max(1, n_ord - 1))
    targets = ords + sinks
    for a in ords:
        n_out = 0
        for b in targets:
            if a == b:
                continue
            if rng.random() < p_edge:
                n_out += 1
                _assign_link_pars(rng, pf, a, b, pars, new_par, add_edge, par_sources, link_formats, trans)
    # make sure something moves
    if not any(a in ords for (a, b) in trans) and n_ord >= 2:
        _assign_link_pars(rng, pf, ords[0], ords[1], pars, new_par, add_edge, par_sources, link_formats, trans)

    # --- source -------------------------------------------------------------------------------
    if has_source:
        for b in rng.permutation(ords)[: _r(rng, (1, 2))]:
            p = new_par("birth", "number", timescale=_choice(rng, [None, 1.0, 1 / 12]))
            add_edge("src", str(b), p["name"])

    # --- junctions ----------------------------------------------------------------------------
    free_ords = [c for c in ords if c not in group_of]
    for ji, j in enumerate(juncs):
        in_group = None
        if groups and rng.random() < pf["p_group_junction"]:
            g = _choice(rng, groups)
            if len(g["members"]) >= 1:
                in_group = g
        if in_group is not None:
            # all inflows from members (ordinary pars), all outflows to members
            srcs = list(rng.permutation(in_group["members"]))[: _r(rng, (1, 2))]
            for a in srcs:
                a = str(a)
                if (a, j) not in trans:
                    p = new_par("q", _choice(rng, ["probability", "rate", "duration", "number"]), timescale=_choice(rng, TIMESCALES))
                    add_edge(a, j, p["name"])
            dests = list(rng.permutation(in_group["members"]))[: _r(rng, (1, 3))]
            residual = rng.random() < pf["p_residual"] and len(dests) >= 2
            for di, b in enumerate(dests):
                b = str(b)
                if residual and di == len(dests) - 1:
                    trans.setdefault((j, b), []).append(">")
                else:
                    p = new_par("pj", "proportion")
                    add_edge(j, b, p["name"])
            continue

        # ordinary junction: inflows from ungrouped compartments (or any compartment if none are grouped), earlier junctions
        src_pool = free_ords if free_ords else []
        n_in = _r(rng, (1, 2))
        ins = list(rng.permutation(src_pool))[:n_in] if src_pool else []
        for a in ins:
            a = str(a)
            if (a, j) in trans:
                continue
            p = new_par("q", _choice(rng, link_formats), timescale=_choice(rng, TIMESCALES))
            add_edge(a, j, p["name"])
        # outflows: to ungrouped ordinary comps, sinks, later junctions
        later = juncs[ji + 1 :]
        dest_pool = free_ords + sinks
        n_out = _r(rng, (1, 3))
        dests = list(rng.permutation(dest_pool))[:n_out] if dest_pool else []
        if later and rng.random() < 0.4:
            dests.append(_choice(rng, later))
        if not dests:
            dests = [_choice(rng, dest_pool)] if dest_pool else []
        residual = rng.random() < pf["p_residual"] and len(dests) >= 2
        for di, b in enumerate(dests):
            b = str(b)
            if residual and di == len(dests) - 1:
                trans.setdefault((j, b), []).append(">")
            else:
                p = new_par("pj", "proportion")
                add_edge(j, b, p["name"])
                if rng.random() < 0.12:
                    # two parallel links from the junction into the same compartment (a cell of the transition matrix may hold
                    # several parameters): each carries its own share
                    p2 = new_par("pj", "proportion")
                    add_edge(j, b, p2["name"])

    # junctions that are fed by nobody and not initialised are legal but inert; junctions that were chosen as
    # destinations of an earlier junction get their inflow from there.  Remove junction->junction edges into
    # group junctions (would mix groups).
    grp_juncs = set()
    for j in juncs:
        outs = [b for (a, b) in trans if a == j]
        if outs and all(b in group_of for b in outs) and all(a in group_of for (a, b) in trans if b == j):
            if any(True for (a, b) in trans if b == j):
                grp_juncs.add(j)
    for (a, b) in list(trans):
        if a in juncs and b in grp_juncs and a not in grp_juncs:
            del trans[(a, b)]
    # a junction must have at least one outflow, and a plain junction at least one non-residual outflow
    for j in juncs:
        outs = [(a, b) for (a, b) in trans if a == j]
        if not outs:
            pool = [c for c in free_ords + sinks] or ords
            p = new_par("pj", "proportion")
            add_edge(j, _choice(rng, pool), p["name"])

    # --- auxiliary (non transition) parameters ------------------------------------------------
    aux = []
    for i in range(_r(rng, pf["n_aux"])):
        p = new_par("aux", _choice(rng, ["number", "probability", "rate", None, None]))
        aux.append(p["name"])

    # --- characteristics ----------------------------------------------------------------------
    characs = []
    nonss = ords + juncs
    for i in range(_r(rng, pf["n_characs"])):
        k = _r(rng, (1, min(4, len(ords))))
        members = [str(x) for x in rng.permutation(ords)[:k]]
        if characs and rng.random() < 0.3:
            members = [characs[-1]["name"]] + [m for m in members if m not in characs[-1]["_flat"]][:2]
        flat = []
        for m in members:
            if m.startswith("ch"):
                flat += [c for c in characs if c["name"] == m][0]["_flat"]
            else:
                flat.append(m)
        flat = list(dict.fromkeys(flat))
        ch = {"name": "ch%d" % i, "components": members, "denominator": None, "db": False, "_flat": flat}
        characs.append(ch)
    # an 'alive' characteristic over everything and an optional prevalence with denominator
    characs.append({"name": "alive", "components": list(ords), "denominator": None, "db": False, "_flat": list(ords)})
    if rng.random() < 0.5:
        characs.append({"name": "prev", "components": [ords[0]], "denominator": "alive", "db": False, "_flat": [ords[0]]})

    # --- functions ----------------------------------------------------------------------------
    negative_ok = vclass == "negative_functions"
    order = [p["name"] for p in pars]
    charac_names = [c["name"] for c in characs]
    for idx, p in enumerate(pars):
        if p["timed"] or p["name"].startswith("birth") and rng.random() < 0.5:
            continue
        if rng.random() < pf["p_function"] * (0.6 if p["format"] == "proportion" else 1.0):
            earlier = [q["name"] for q in pars[:idx] if not q["timed"]]
            scale = {"number": 40.0, "duration": 3.0}.get(p["format"], 1.0)
            fn = gen_function(rng, ords, charac_names, earlier, negative_ok=negative_ok and p["format"] != "duration", scale=scale)
            if p["format"] == "duration":
                fn = "0.05+" + fn  # keep durations strictly positive
            if p["format"] == "proportion" and not negative_ok:
                fn = "0.05+" + fn
            p["function"] = fn
            p["db"] = bool(rng.random() < 0.2)
    # a chain below a (programme-targetable) data parameter: A -> B = f(A) (no links, depends on parameters only) -> C = g(B) drives
    # a link.  While programmes overwrite A, B and C must follow it.
    if rng.random() < 0.2:
        As = [q for q in pars if not q["timed"] and q["function"] is None and q["db"] and q["format"] in ("probability", "rate", None) and not q["name"].startswith("birth")]
        Cs = [q for q in pars if not q["timed"] and q["function"] is None and q["name"].startswith("q") and q["format"] in ("probability", "rate")]
        if As and Cs:
            A_ = _choice(rng, As)
            C_ = _choice(rng, [q for q in Cs if q is not A_] or Cs)
            if C_ is not A_:
                k = _f(rng.uniform(0.3, 1.5))
                B_ = {"name": "aux%d" % sum(1 for q in pars if q["name"].startswith("aux")), "format": None, "timescale": None, "min": None, "max": None, "function": _choice(rng, ["%s*%s" % (k, A_["name"]), "min(%s,%s)+0.05" % (A_["name"], k), "%s**2/(1+%s)+%s" % (A_["name"], A_["name"], _f(k / 10))]), "db": False, "timed": False, "targetable": False}
                pars.insert(pars.index(C_), B_)
                C_["function"] = _choice(rng, ["%s*%s/(%s+1)" % (k, B_["name"], B_["name"]), "min(%s,%s)" % (B_["name"], k), "%s*%s" % (_f(k / 2), B_["name"])])
                C_["db"] = False
                A_["_force_targetable"] = True
    # output-only parameters (functions of flows) are never dependencies
    if rng.random() < 0.4 and trans:
        (a, b) = _choice(rng, [k for k in trans if trans[k] != [">"] and k[0] not in juncs] or list(trans))
        pn = [x for x in trans[(a, b)] if x != ">"]
        forms = ["%s:%s" % (a, b), "%s:" % a, ":%s" % b]
        if pn:
            forms.append("%s:flow" % pn[0])
        new_par("out", "number", function=_choice(rng, forms), db=False)

    # --- cross-population aggregations ----------------------------------------------------------
    interactions = []
    if rng.random() < pf["p_aggregation"]:
        use_inter = rng.random() < 0.7
        if use_inter:
            interactions.append({"name": "inter0"})
        cands = [q["name"] for q in pars if not q["timed"] and q["function"] is None and q["format"] != "proportion"] + ords[:2]
        if cands:
            var = _choice(rng, cands)
            fn = _choice(rng, ["SRC_POP_AVG", "SRC_POP_SUM", "TGT_POP_AVG", "TGT_POP_SUM"])
            args = [var]
            if use_inter:
                args.append("inter0")
                if rng.random() < 0.6:
                    args.append(_choice(rng, ["alive", ords[0]]))
            p = new_par("agg", _choice(rng, [None, "rate", "probability"]), function="%s(%s)" % (fn, ", ".join(args)), db=False)
            if p["format"] is not None and n_ord >= 2:
                # let the aggregated value drive a transition
                a, b = ords[0], ords[1]
                if (a, b) not in trans and all(a not in par_sources.get(x, set()) for x in [p["name"]]):
                    add_edge(a, b, p["name"])

    # --- targetable parameters ------------------------------------------------------------------
    for p in pars:
        if p["timed"] or p["name"].startswith(("out", "agg")):
            continue
        is_link = p["name"] in par_sources
        if p["format"] == "number" and not is_link:
            continue
        if p["name"].startswith("birth"):
            continue
        forced = p.pop("_force_targetable", False)
        if rng.random() < pf["p_targetable"] or forced:
            p["targetable"] = True

    # --- limits -------------------------------------------------------------------------------
    for p in pars:
        if p["timed"]:
            continue
        if p["format"] in ("probability", "rate", "number", "proportion", "duration") and not negative_ok:
            p["min"] = 0.0 if rng.random() < 0.8 else None
        if rng.random() < pf["p_limits"] * (0.3 if p["name"].startswith("agg") else 1.0) and p["format"] != "duration":
            if vclass == "binding_limits" or rng.random() < 0.3:
                hi = {"number": 30.0, "proportion": 0.8}.get(p["format"], 0.6)
                p["max"] = _f(rng.uniform(0.2, 1.0) * hi)
                if rng.random() < 0.5:
                    p["min"] = _f(rng.uniform(0.0, 0.3) * hi)
        if p["format"] == "duration" and p["min"] is not None and p["min"] <= 0:
            p["min"] = None

    # --- populations, transfers, settings ------------------------------------------------------
    pops = POP_NAMES[: _r(rng, pf["n_pops"])]
    transfers = []
    if len(pops) > 1 and rng.random() < pf["p_transfer"]:
        for ti in range(_r(rng, (1, 2))):
            entries = []
            for a in pops:
                for b in pops:
                    if a != b and rng.random() < 0.5:
                        units = _choice(rng, ["number", "rate", "duration"])
                        entries.append([a, b, units, _gen_series(rng, pf, units, vclass, None)])
            if entries:
                transfers.append({"name": "tr%d" % ti, "entries": entries})

    dt = float(_choice(rng, pf["dts"]))
    start = float(_choice(rng, [2000.0, 2000.0, 2000.5, 2017.25, 1999.0]))
    nsteps = _r(rng, pf["steps"])
    end = start + nsteps * dt
    if rng.random() < pf["p_offgrid_end"]:
        end -= dt * float(rng.uniform(0.05, 0.95))
    years = [math.floor(start) + i for i in range(0, max(2, int(math.ceil(end - math.floor(start))) + 2))]

    # transfers and interactions may be time-varying too (and carry a constant next to their year values)
    for tr_ in transfers:
        for e in tr_["entries"]:
            if rng.random() < 0.3:
                e[3] = _gen_series(rng, dict(pf, p_timevarying=1.0), e[2], vclass, years)

    # --- data -----------------------------------------------------------------------------------
    values = {}
    for c in comps:
        if c["db"]:
            values[c["name"]] = {pop: {"a": sample_popsize(rng, vclass)} for pop in pops}
    for p in pars:
        if p["db"]:
            values[p["name"]] = {}
            for pop in pops:
                if p["timed"]:
                    values[p["name"]][pop] = {"a": _gen_duration(rng, dt, vclass)}
                else:
                    values[p["name"]][pop] = _gen_series(rng, pf, p["format"], vclass, years)
    # a timed duration may be defined by a (time-constant) function while the databook still holds a value for it: the function
    # value is the duration in force (bins are sized from it), not the databook number
    for p in pars:
        if p["timed"] and p["db"] and p["function"] is None and rng.random() < 0.15:
            d0 = float(values[p["name"]][pops[0]]["a"])
            d1 = _f(d0 * float(_choice(rng, [0.5, 1.5, 2.0, 3.0])))
            if d1 > 0:
                p["function"] = "%r/2+%r/2" % (d1, d1)
    # negative *data* on transition parameters that have neither a function nor a lower limit (a negative transition parameter
    # gives zero flow, never a reverse flow)
    if negative_ok:
        for p in pars:
            if p["db"] and not p["timed"] and p["function"] is None and p["min"] is None and p["format"] in ("probability", "rate", "number") and p["name"].startswith("q") and rng.random() < 0.4:
                pop = pops[int(rng.integers(0, len(pops)))]
                v = values[p["name"]][pop]
                if "a" in v:
                    v["a"] = -abs(v["a"]) - 0.1
                else:
                    k = int(rng.integers(0, len(v["v"])))
                    v["v"] = [(-abs(x) - 0.1) if (i >= k) else x for i, x in enumerate(v["v"])]
        # ... and on junction proportions (a negative proportion sends nobody that way and does not enter the normalisation);
        # plain junctions keep their first proportion positive (below)
        for j in juncs:
            outs_j = [x for (a, b) in trans if a == j for x in trans[(a, b)] if x != ">"]
            for pname in outs_j:
                p = [q for q in pars if q["name"] == pname][0]
                if p["db"] and p["function"] is None and p["min"] is None and pname in values and rng.random() < 0.35:
                    pop = pops[int(rng.integers(0, len(pops)))]
                    v = values[pname][pop]
                    if "a" in v and v["a"] is not None:
                        v["a"] = -abs(v["a"]) - 0.1
                    elif v.get("v"):
                        v["v"] = [-abs(x) - 0.1 for x in v["v"]]
    # plain junctions need a positive proportion somewhere
    for j in juncs:
        outs = [(a, b) for (a, b) in trans if a == j]
        has_res = any(trans[k] == [">"] for k in outs)
        pj = [x for k in outs for x in trans[k] if x != ">"]
        if not has_res and pj:
            first = [p for p in pars if p["name"] == pj[0]][0]
            if first["function"] is None or first["db"]:
                for pop in pops:
                    first_vals = values.setdefault(first["name"], {})
                    first_vals[pop] = {"a": _f(rng.uniform(0.1, 1.0))}
            if first["function"] is not None and negative_ok:
                first["function"] = "0.1+max(0," + first["function"] + ")"
            if first["max"] is not None and first["max"] <= 0:
                first["max"] = None

    # proportions of a plain junction typed with six decimals (thirds as 0.333333, ...): they sum to 1 only up to ~1e-6, and the
    # junction still passes on everybody who arrives
    near_one = set()
    for j in juncs:
        outs = [(a, b) for (a, b) in trans if a == j]
        pj = [x for k in outs for x in trans[k] if x != ">"]
        if any(trans[k] == [">"] for k in outs) or len(pj) < 2 or rng.random() > 0.25:
            continue
        pjp = [[q for q in pars if q["name"] == x][0] for x in pj]
        if any(q["function"] is not None or not q["db"] or q["max"] is not None for q in pjp):
            continue
        for pop in pops:
            w = rng.dirichlet(np.ones(len(pj))) if rng.random() < 0.6 else np.full(len(pj), 1.0 / len(pj))
            w = [float(np.round(x, 6)) for x in w]
            if abs(sum(w) - 1.0) == 0.0:
                w[0] = float(np.round(w[0] + 1e-6, 6))
            for x, v in zip(pj, w):
                values.setdefault(x, {})[pop] = {"a": v}
        near_one.update(pj)

    yfactors = {}
    if rng.random() < pf["p_yfactor"]:
        for p in pars:
            if p["name"] in near_one:
                continue
            if p["db"] and not p["timed"] and p["format"] != "duration" and rng.random() < 0.3:
                yfactors[p["name"]] = {pop: _choice(rng, [0.3, 1.0, 2.5] if p["format"] == "proportion" else [0.0, 0.3, 1.0, 2.5]) for pop in pops}
            elif p["db"] and (p["timed"] or p["format"] == "duration") and rng.random() < 0.5:
                yfactors[p["name"]] = {pop: _choice(rng, [0.3, 1.0, 2.5, 4.0]) for pop in pops}  # calibrated durations (also of timed compartments)

    # all-population (meta) calibration factors on parameters and on initial sizes, and population factors on initial sizes
    meta_yfactors = {}
    if rng.random() < pf["p_yfactor"]:
        for p in pars:
            if p["db"] and not p["timed"] and p["format"] != "duration" and p["name"] not in near_one and rng.random() < 0.2:
                meta_yfactors[p["name"]] = _choice(rng, [0.5, 1.5, 2.0])
        for c in comps:
            if c["db"] and c["kind"] == "ord" and rng.random() < 0.3:
                meta_yfactors[c["name"]] = _choice(rng, [0.5, 1.5, 2.0])
            if c["db"] and c["kind"] == "ord" and rng.random() < 0.3:
                yfactors[c["name"]] = {pop: _choice(rng, [0.5, 1.0, 2.0, 3.0]) for pop in pops}

    for it in interactions:
        it["entries"] = [[a, b, {"a": _choice(rng, [0.0, 1.0, 0.5, _f(rng.uniform(0, 3))])}] for a in pops for b in pops]
    spec = {
        "interactions": interactions,
        "comps": comps,
        "characs": [{k: v for k, v in c.items() if k != "_flat"} for c in characs],
        "pars": pars,
        "trans": [[a, b, ", ".join(v) if v != [">"] else ">"] for (a, b), v in trans.items()],
        "pops": pops,
        "transfers": transfers,
        "values": values,
        "yfactors": yfactors,
        "meta_yfactors": meta_yfactors,
        "years": years,
        "settings": {"start": start, "end": _f(end), "dt": dt},
        "meta": {"vclass": vclass, "groups": groups},
    }
    if rng.random() < 0.2:
        spec["charac_sheet_order"] = "reversed"
    if rng.random() < 0.25:
        spec["comp_sheet_order"] = "reversed"
    if float(start).is_integer() and float(dt).is_integer() and float(spec["settings"]["end"]).is_integer() and rng.random() < 0.6:
        spec["settings"]["int_typed"] = True
    # residual marker sanity: a cell holds either '>' or parameters
    for t in spec["trans"]:
        if ">" in t[2] and t[2] != ">":
            t[2] = ">"
    return spec


def _assign_link_pars(rng, pf, a, b, pars, new_par, add_edge, par_sources, link_formats, trans):
    if (a, b) in trans:
        return
    n = 2 if rng.random() < 0.15 else 1
    for _ in range(n):
        share = [p for p in pars if p["name"].startswith("q") and a not in par_sources.get(p["name"], set()) and p["name"] not in trans.get((a, b), [])]
        if share and rng.random() < 0.2:
            p = _choice(rng, share)
        else:
            p = new_par("q", _choice(rng, link_formats), timescale=_choice(rng, TIMESCALES))
        add_edge(a, b, p["name"])


def _gen_duration(rng, dt, vclass):
    u = rng.random()
    if u < 0.3:
        return _f(dt * int(rng.integers(1, 8)))  # exact multiple
    if u < 0.4:
        return _f(dt * rng.uniform(0.05, 0.95))  # shorter than a step
    if u < 0.5:
        k = int(rng.integers(1, 8))
        return k / round(1 / dt) if abs(1 / dt - round(1 / dt)) < 1e-9 else _f(dt * k)  # k/den with dt = 1/den
    return _f(dt * rng.uniform(1.0, 12.0))


def _gen_series(rng, pf, fmt, vclass, years):
    """assumption only, one year, several years, years outside the simulated range"""
    if years is None or rng.random() > pf["p_timevarying"]:
        return {"a": sample_value(rng, fmt, vclass)}
    k = int(rng.integers(1, min(5, len(years)) + 1))
    ts = sorted(float(y) for y in rng.choice(years, size=k, replace=False))
    out = {"t": ts, "v": [sample_value(rng, fmt, vclass) for _ in ts]}
    if rng.random() < 0.15:
        out["a"] = sample_value(rng, fmt, vclass)  # a constant entered next to year values (valid: the year values take precedence)
    return out


# ----------------------------------------------------------------------------------------------
# building the real objects
# ----------------------------------------------------------------------------------------------


def framework_workbook(spec):
    import openpyxl

    wb = openpyxl.Workbook()
    wb.properties.category = "atomica:framework"
    ws = wb.active
    ws.title = "About"
    ws.append(["Name", "Description"])
    ws.append(["generated", "generated by av.gen"])

    ws = wb.create_sheet("Databook Pages")
    ws.append(["Datasheet Code Name", "Datasheet Title"])
    ws.append(["comps", "Compartments"])
    ws.append(["characs", "Characteristics"])
    ws.append(["pars", "Parameters"])

    ws = wb.create_sheet("Compartments")
    ws.append(["Code Name", "Display Name", "Is Source", "Is Sink", "Is Junction", "Databook Page", "Default Value", "Setup Weight"])
    # (the order of the rows is free: the integration order of junctions follows the transitions, not the sheet)
    comps_rows = list(reversed(spec["comps"])) if spec.get("comp_sheet_order") == "reversed" else spec["comps"]
    for c in comps_rows:
        kind = c["kind"]
        db = "comps" if c.get("db") else None
        sw = c.get("setup")
        if sw is None:
            sw = 1 if db else 0
        ws.append([c["name"], c.get("label", "Comp " + c["name"]), "y" if kind == "src" else "n", "y" if kind == "sink" else "n", "y" if kind == "junc" else "n", db, c.get("default"), sw])

    ws = wb.create_sheet("Transitions")
    names = [c["name"] for c in comps_rows]
    ws.append(["Transition Matrix"] + names)
    cell = {(a, b): p for a, b, p in spec["trans"]}
    for a in names:
        ws.append([a] + [cell.get((a, b)) for b in names])

    ws = wb.create_sheet("Characteristics")
    ws.append(["Code Name", "Display Name", "Components", "Denominator", "Databook Page", "Default Value", "Setup Weight"])
    # the order of the rows is free: a characteristic may include (or be divided by) one that is defined further down
    for c in (list(reversed(spec["characs"])) if spec.get("charac_sheet_order") == "reversed" else spec["characs"]):
        db = "characs" if c.get("db") else None
        sw = c.get("setup")
        if sw is None:
            sw = 1 if db else 0
        ws.append([c["name"], c.get("label", "Charac " + c["name"]), ", ".join(c["components"]), c.get("denominator"), db, c.get("default"), sw])

    ws = wb.create_sheet("Interactions")
    ws.append(["Code Name", "Display Name", "Default Value"])
    for i in spec.get("interactions", []):
        ws.append([i["name"], "Interaction " + i["name"], i.get("default")])

    ws = wb.create_sheet("Parameters")
    ws.append(["Code Name", "Display Name", "Format", "Default Value", "Minimum Value", "Maximum Value", "Function", "Databook Page", "Timescale", "Targetable", "Timed", "Is Derivative"])
    for p in spec["pars"]:
        ws.append([p["name"], p.get("label", "Par " + p["name"]), p["format"], p.get("default"), p.get("min"), p.get("max"), p.get("function"), "pars" if p.get("db") else None, p.get("timescale"), "y" if p.get("targetable") else "n", "y" if p.get("timed") else "n", "y" if p.get("derivative") else "n"])

    ws = wb.create_sheet("Cascades")
    cascades = spec.get("cascades") or [{"name": "main", "stages": [["Everyone", "alive"]]}]
    for ci, casc in enumerate(cascades):
        if ci:
            ws.append([None, None])
        ws.append([casc["name"], "Constituents"])
        for st in casc["stages"]:
            ws.append([st[0], st[1]])
    return wb


def workbook_bytes(wb):
    f = io.BytesIO()
    wb.save(f)
    return f.getvalue()


def load_framework(xlsx_bytes):
    import atomica as at
    import sciris as sc

    return at.ProjectFramework(sc.Spreadsheet(io.BytesIO(xlsx_bytes)))


def build_framework(spec):
    return load_framework(workbook_bytes(framework_workbook(spec)))


def fill_ts(ts, v):
    if "a" in v:
        # (a whole number may have been entered as an integer through the API: spec flag "int")
        ts.insert(None, v["a"])
        if v.get("int") and float(v["a"]).is_integer():
            ts.assumption = int(v["a"]) if v["int"] == "python" else np.int64(v["a"])  # (set directly: insert() converts to float)
    if "t" in v:
        for t, x in zip(v["t"], v["v"]):
            ts.insert(t, x)
    if v.get("sigma") is not None:
        ts.sigma = v["sigma"]


TRANSFER_UNITS = {"number": "Number (years)", "rate": "Rate (per year)", "duration": "Duration (years)"}


def build_data(spec, fw):
    import atomica as at

    pops = {p: "Population " + p for p in spec["pops"]}
    transfers = {t["name"]: "Transfer " + t["name"] for t in spec.get("transfers", [])}
    data = at.ProjectData.new(fw, np.array(spec["years"], dtype=float), pops=pops, transfers=transfers)
    for name, popvals in spec["values"].items():
        tdve = data.tdve[name]
        for pop, v in popvals.items():
            fill_ts(tdve.ts[pop], v)
    # anything the framework put in the databook that the spec did not provide gets a benign constant
    for name, tdve in data.tdve.items():
        for pop, ts in tdve.ts.items():
            if not ts.has_data:
                ts.insert(None, 0.0)
    for t in spec.get("transfers", []):
        tdc = [x for x in data.transfers if x.code_name == t["name"]][0]
        for a, b, units, v in t["entries"]:
            ts = at.TimeSeries(units=TRANSFER_UNITS[units])
            fill_ts(ts, v)
            tdc.ts[(a, b)] = ts
    for it in spec.get("interactions", []):
        tdc = [x for x in data.interpops if x.code_name == it["name"]][0]
        for a, b, v in it.get("entries", []):
            ts = at.TimeSeries(units="N.A.")
            fill_ts(ts, v)
            tdc.ts[(a, b)] = ts
    return data


def build_project(spec, fw=None, data=None):
    import atomica as at

    if fw is None:
        fw = build_framework(spec)
    if data is None:
        data = build_data(spec, fw)
    s = spec["settings"]
    if s.get("int_typed"):
        # the same grid written with integers (start=2000, dt=1): the settings accept any real numbers
        P = at.Project(framework=fw, databook=data, do_run=False, sim_start=int(s["start"]), sim_end=int(s["end"]), sim_dt=int(s["dt"]))
    else:
        P = at.Project(framework=fw, databook=data, do_run=False, sim_start=s["start"], sim_end=s["end"], sim_dt=s["dt"])
    ps = P.parsets[0]
    for par, d in spec.get("yfactors", {}).items():
        for pop, f in d.items():
            ps.pars[par].y_factor[pop] = f
    for par, f in spec.get("meta_yfactors", {}).items():
        ps.pars[par].meta_y_factor = f
    return P


def rng_for(seed, prop_number, index):
    return np.random.default_rng([int(seed), int(prop_number), int(index)])


# ----------------------------------------------------------------------------------------------
# program sets and instructions
# ----------------------------------------------------------------------------------------------


def _series(rng, years, sampler, p_const=0.5):
    if rng.random() < p_const:
        return {"a": _f(sampler())}
    k = int(rng.integers(1, min(4, len(years)) + 1))
    ts = sorted(float(y) for y in rng.choice(years, size=k, replace=False))
    return {"t": ts, "v": [_f(sampler()) for _ in ts]}


def gen_progspec(rng, spec, n_progs=(1, 5)):
    """Programs targeting the spec's targetable parameters.  Returns None if nothing is targetable."""
    targetable = [p for p in spec["pars"] if p.get("targetable")]
    if not targetable:
        return None
    pops = spec["pops"]
    ords = [c["name"] for c in spec["comps"] if c["kind"] == "ord"]
    years = spec["years"]
    s = spec["settings"]
    names = ["prog%d" % i for i in range(_r(rng, n_progs))]
    programs = []
    for n in names:
        one_off = bool(rng.random() < 0.5)
        pr = {
            "name": n,
            "target_pops": [str(x) for x in rng.permutation(pops)[: _r(rng, (1, len(pops)))]],
            "target_comps": [str(x) for x in rng.permutation(ords)[: _r(rng, (1, min(3, len(ords))))]],
            "one_off": one_off,
            "unit_cost": _series(rng, years, lambda: 10 ** rng.uniform(-1, 3)),
            "spend": _series(rng, years, lambda: (10 ** rng.uniform(0, 6)) * (rng.random() > 0.1)),
            "capacity_constraint": None,
            "saturation": None,
        }
        extra = [c["name"] for c in spec["comps"] if c["kind"] in ("sink", "junc")]
        if extra and rng.random() < 0.15:
            pr["target_comps"].append(str(_choice(rng, extra)))  # (a program may list a sink or a junction among its target compartments)
        if rng.random() < 0.3:
            pr["capacity_constraint"] = {"series": _series(rng, years, lambda: 10 ** rng.uniform(0, 4)), "units": "people/year" if rng.random() < 0.6 else "people"}
        if rng.random() < 0.3:
            pr["saturation"] = _series(rng, years, lambda: rng.uniform(0.1, 1.5), p_const=0.8)
        programs.append(pr)
    covouts = []
    for p in targetable:
        for pop in pops:
            if rng.random() < 0.75:
                progs = [str(x) for x in rng.permutation(names)[: _r(rng, (1, min(4, len(names))))]]
                fmt = p["format"]
                hi = {"number": 2.0, "duration": 5.0}.get(fmt, 1.0)
                base = _f(rng.uniform(0, hi * 0.5))
                outs = {q: _f(rng.uniform(0, hi)) for q in progs}
                if fmt != "duration":  # boundary values: a baseline / an outcome of exactly zero, an outcome at the top of the range
                    if rng.random() < 0.2:
                        base = 0.0
                    if rng.random() < 0.15:
                        outs[progs[0]] = 0.0 if rng.random() < 0.5 else hi
                imp = None
                if len(progs) >= 2 and rng.random() < 0.4:
                    k = _r(rng, (2, len(progs)))
                    combo = progs[:k]
                    imp = "%s=%r" % ("+".join(combo), _f(rng.uniform(0, hi)))
                covouts.append({"par": p["name"], "pop": pop, "progs": outs, "cov_interaction": _choice(rng, ["additive", "random", "nested"]), "imp_interaction": imp, "baseline": base})
    if not covouts:
        p = targetable[0]
        covouts.append({"par": p["name"], "pop": pops[0], "progs": {names[0]: 0.5}, "cov_interaction": "additive", "imp_interaction": None, "baseline": 0.1})
    # instructions
    tgrid = s["start"] + s["dt"] * np.arange(0, max(1, int(round((s["end"] - s["start"]) / s["dt"]))) + 1)
    u = rng.random()
    if u < 0.3:
        start = float(s["start"])
    elif u < 0.7:
        start = float(_choice(rng, list(tgrid)))
    else:
        start = float(s["start"] + rng.uniform(0, 1) * (s["end"] - s["start"]))
    stop = None
    if rng.random() < 0.3:
        stop = float(start + rng.uniform(0, 1) * max(s["dt"], s["end"] - start))
        later = [float(x) for x in tgrid if x >= start]
        if later and rng.random() < 0.5:
            stop = float(_choice(rng, later))  # exactly a simulation time (the last one included): programs are still active at the stop year
    ins = {"start": start, "stop": stop, "alloc": {}, "capacity": {}, "coverage": {}}
    oyears = [float(y) for y in years] + [float(x) for x in tgrid[:: max(1, len(tgrid) // 4)]]
    for n in names:
        if rng.random() < 0.3:
            ins["alloc"][n] = _series(rng, oyears, lambda: (10 ** rng.uniform(0, 6)) * (rng.random() > 0.1), p_const=0.0)
        if rng.random() < 0.15:
            ins["capacity"][n] = _series(rng, oyears, lambda: 10 ** rng.uniform(0, 4), p_const=0.0)
        if rng.random() < 0.15:
            ins["coverage"][n] = _series(rng, oyears, lambda: rng.uniform(0, 1.2), p_const=0.0)
    return {"programs": programs, "covouts": covouts, "instructions": ins}


def _ts(v, units=None):
    import atomica as at

    ts = at.TimeSeries(units=units)
    fill_ts(ts, v)
    return ts


def build_progset(progspec, fw, data):
    import atomica as at

    ps = at.ProgramSet.new(name="generated", tvec=np.array(sorted(set(data.tvec))), progs={p["name"]: "Program " + p["name"] for p in progspec["programs"]}, framework=fw, data=data)
    for p in progspec["programs"]:
        prog = ps.programs[p["name"]]
        prog.target_pops = list(p["target_pops"])
        prog.target_comps = list(p["target_comps"])
        prog.unit_cost = _ts(p["unit_cost"], "$/person (one-off)" if p["one_off"] else "$/person/year")
        prog.spend_data = _ts(p["spend"], "$/year")
        if p["capacity_constraint"]:
            prog.capacity_constraint = _ts(p["capacity_constraint"]["series"], p["capacity_constraint"]["units"])
        if p["saturation"]:
            prog.saturation = _ts(p["saturation"], "N.A.")
    for c in progspec["covouts"]:
        ps.covouts[(c["par"], c["pop"])] = at.programs.Covout(par=c["par"], pop=c["pop"], progs=dict(c["progs"]), cov_interaction=c["cov_interaction"], imp_interaction=c["imp_interaction"], baseline=c["baseline"])
    return ps


def build_instructions(progspec, override=None):
    import atomica as at

    ins = dict(progspec["instructions"])
    if override:
        ins.update(override)
    return at.ProgramInstructions(start_year=ins["start"], stop_year=ins["stop"], alloc={k: _ts(v) for k, v in ins["alloc"].items()} or None, capacity={k: _ts(v) for k, v in ins["capacity"].items()} or None, coverage={k: _ts(v) for k, v in ins["coverage"].items()} or None)

"""Deep structural snapshots of inputs and bit-exact digests of outputs."""

import hashlib
import math

import numpy as np


def _h(b):
    return hashlib.sha1(b).hexdigest()[:20]


def arr_digest(a):
    a = np.ascontiguousarray(np.asarray(a, dtype=float))
    return _h(a.tobytes() + str(a.shape).encode())


def result_arrays(result):
    """{structural key: array copy} for every output array; parameter-less links (random uuid names) are keyed by
    their end points."""
    out = {}
    for pop in result.model.pops:
        for c in pop.comps:
            out[("comp", pop.name, c.name)] = np.array(c.vals, dtype=float, copy=True)
            b = getattr(c, "_vals", None)
            if b is not None and np.ndim(b) == 2:
                out[("bins", pop.name, c.name)] = np.array(b, dtype=float, copy=True)
        for c in pop.characs:
            out[("charac", pop.name, c.name)] = np.array(c.vals, dtype=float, copy=True)
        for p in pop.pars:
            out[("par", pop.name, p.name)] = np.array(p.vals, dtype=float, copy=True)
        for l in pop.links:
            key = ("link", pop.name, l.source.pop.name, l.source.name, l.dest.pop.name, l.dest.name, l.parameter.name if l.parameter is not None else "-")
            k = key
            n = 1
            while k in out:
                n += 1
                k = key + (n,)
            out[k] = np.array(l.vals, dtype=float, copy=True)
    out[("t",)] = np.array(result.model.t, dtype=float, copy=True)
    return out


def result_digest(result):
    return {"|".join(map(str, k)): arr_digest(v) for k, v in result_arrays(result).items()}


def compare_arrays(a, b, rtol=0.0, upto=None, t=None, mask=None):
    """Returns list of (key, index, va, vb) for differing entries. rtol=0 -> bit-exact (NaN == NaN)."""
    diffs = []
    for k in sorted(set(a) | set(b), key=str):
        if k not in a or k not in b:
            diffs.append((k, None, "present" if k in a else "missing", "present" if k in b else "missing"))
            continue
        x, y = a[k], b[k]
        if x.ndim == 2:
            if mask is not None:
                x, y = x[:, mask], y[:, mask]
        elif mask is not None and x.shape == mask.shape:
            x, y = x[mask], y[mask]
        if x.shape != y.shape:
            diffs.append((k, None, x.shape, y.shape))
            continue
        if rtol == 0:
            same = (x == y) | (np.isnan(x) & np.isnan(y))
        else:
            with np.errstate(all="ignore"):
                same = np.isclose(x, y, rtol=rtol, atol=rtol * 1e-3, equal_nan=True) | (x == y)
        if not np.all(same):
            idx = np.argwhere(~same)[0]
            diffs.append((k, [int(i) for i in idx], float(x[tuple(idx)]), float(y[tuple(idx)])))
    return diffs


# ---------------------------------------------------------------------------------------------
# structural snapshot
# ---------------------------------------------------------------------------------------------

IGNORE_ATTRS = {"_book", "_formats", "_references", "created", "modified", "uid", "gitinfo", "version", "_sampled__", "filename"}


class Snap:
    """Canonical recursive walk producing a nested hashable structure.  Keeps every visited object alive while the
    memo is in use (id() reuse by freed temporaries otherwise produces false differences)."""

    def __init__(self, ignore=()):
        self.memo = {}
        self.keep = []
        self.ignore = set(IGNORE_ATTRS) | set(ignore)

    def walk(self, o, depth=0):
        import pandas as pd

        if o is None or isinstance(o, (bool, int, str, bytes)):
            return o
        if isinstance(o, float):
            return ("f", repr(o)) if not math.isnan(o) else ("f", "nan")
        if isinstance(o, (np.floating, np.integer, np.bool_)):
            return self.walk(o.item(), depth)
        if isinstance(o, np.ndarray):
            if o.dtype == object:
                return ("objarr", o.shape, tuple(self.walk(x, depth + 1) for x in o.ravel().tolist()))
            return ("arr", str(o.dtype), o.shape, _h(np.ascontiguousarray(o).tobytes()))
        oid = id(o)
        if oid in self.memo:
            return ("ref", self.memo[oid])
        if depth > 60:
            return ("deep", type(o).__name__)
        self.keep.append(o)
        self.memo[oid] = len(self.memo)
        if isinstance(o, pd.DataFrame):
            return ("df", tuple(map(str, o.columns)), tuple(map(str, o.index)), tuple(self.walk(o.iloc[:, i].tolist(), depth + 1) for i in range(o.shape[1])), tuple(str(d) for d in o.dtypes))
        if isinstance(o, pd.Series):
            return ("series", tuple(map(str, o.index)), self.walk(o.tolist(), depth + 1))
        if isinstance(o, dict):
            return ("dict", type(o).__name__, tuple((self.walk(k, depth + 1), self.walk(v, depth + 1)) for k, v in o.items()))
        if isinstance(o, (list, tuple)):
            return (type(o).__name__, tuple(self.walk(x, depth + 1) for x in o))
        if isinstance(o, (set, frozenset)):
            return ("set", tuple(sorted((self.walk(x, depth + 1) for x in o), key=repr)))
        if callable(o) and not hasattr(o, "__dict__"):
            return ("callable", getattr(o, "__name__", type(o).__name__))
        if type(o).__module__.startswith(("openpyxl", "xlsxwriter", "matplotlib", "io", "_io", "logging")):
            return ("opaque", type(o).__name__)
        if hasattr(o, "__slots__") and not hasattr(o, "__dict__"):
            return ("slots", type(o).__name__, tuple((s, self.walk(getattr(o, s, None), depth + 1)) for s in o.__slots__))
        if hasattr(o, "__dict__"):
            items = []
            for k, v in o.__dict__.items():
                if k in self.ignore:
                    continue
                items.append((k, self.walk(v, depth + 1)))
            return ("obj", type(o).__name__, tuple(items))
        return ("repr", type(o).__name__, repr(o)[:200])


def snapshot(o, ignore=()):
    return Snap(ignore).walk(o)


def first_difference(a, b, path="root"):
    """Human-readable path of the first difference between two snapshots."""
    if type(a) != type(b):
        return "%s: %r != %r" % (path, a if not isinstance(a, tuple) else a[:2], b if not isinstance(b, tuple) else b[:2])
    if isinstance(a, tuple):
        if len(a) != len(b):
            return "%s: length %d != %d" % (path, len(a), len(b))
        for i, (x, y) in enumerate(zip(a, b)):
            if x != y:
                label = str(i)
                if isinstance(x, tuple) and len(x) == 2 and isinstance(x[0], str):
                    label = x[0]
                return first_difference(x, y, path + "/" + label)
        return None
    if a != b:
        return "%s: %r != %r" % (path, a, b)
    return None

"""Self-validation: apply a deliberate break to a scratch copy of the repository's package and confirm
that the named checks fire.  Usage:
    python -m av.selftest <patch-file-or-dir> <ID>[,<ID>...] [--tier quick] [--limit N]
A patch is a unified diff against /repo (git apply).  The scratch copy lives under /tmp and is removed."""

import os
import shutil
import subprocess
import sys
import tempfile

ROOT = os.path.dirname(os.path.dirname(os.path.abspath(__file__)))


def run(patch, ids, tier="quick", limit=None, keep=False):
    scratch = tempfile.mkdtemp(prefix="av_mut_", dir="/tmp")
    try:
        subprocess.check_call(["git", "-C", "/repo", "worktree", "add", "-q", "--detach", scratch + "/wt"], stdout=subprocess.DEVNULL)
        wt = scratch + "/wt"
        # bring over uncommitted changes of /repo's working tree (checks must see the current tree)
        diff = subprocess.run(["git", "-C", "/repo", "diff", "HEAD"], capture_output=True, text=True).stdout
        if diff.strip():
            subprocess.run(["git", "-C", wt, "apply", "-"], input=diff, text=True, check=True)
        r = subprocess.run(["git", "-C", wt, "apply", os.path.abspath(patch)], capture_output=True, text=True)
        if r.returncode != 0:
            print("PATCH DOES NOT APPLY:", patch, r.stderr[:500])
            return None
        results = {}
        for pid in ids:
            cmd = [os.path.join(ROOT, "check"), pid, "--tier", tier, "--repo", wt, "--no-evidence"]
            if limit:
                cmd += ["--limit", str(limit)]
            p = subprocess.run(cmd, capture_output=True, text=True, cwd=ROOT)
            mech = sorted({l.split("mechanism=")[-1] for l in p.stdout.splitlines() if l.startswith("VIOLATION")})
            results[pid] = (p.returncode, mech)
        return results
    finally:
        subprocess.run(["git", "-C", "/repo", "worktree", "remove", "--force", scratch + "/wt"], stdout=subprocess.DEVNULL, stderr=subprocess.DEVNULL)
        shutil.rmtree(scratch, ignore_errors=True)
        subprocess.run(["git", "-C", "/repo", "worktree", "prune"], stdout=subprocess.DEVNULL)


def main():
    args = [a for a in sys.argv[1:] if not a.startswith("--")]
    tier = "quick"
    limit = None
    for i, a in enumerate(sys.argv):
        if a == "--tier":
            tier = sys.argv[i + 1]
        if a == "--limit":
            limit = int(sys.argv[i + 1])
    args = [a for a in args if a not in (tier, str(limit))]
    target, ids = args[0], args[1].split(",")
    patches = [target] if os.path.isfile(target) else sorted(os.path.join(target, f) for f in os.listdir(target) if f.endswith((".patch", ".diff")))
    bad = 0
    for p in patches:
        res = run(p, ids, tier, limit)
        if res is None:
            bad += 1
            continue
        for pid, (rc, mech) in res.items():
            status = "CAUGHT" if rc == 1 else ("MISSED" if rc == 0 else "rc=%s" % rc)
            print("%-50s %-4s %-7s %s" % (os.path.basename(p), pid, status, ", ".join(mech)[:200]))
            if rc != 1:
                bad += 1
    return 1 if bad else 0


if __name__ == "__main__":
    sys.exit(main())

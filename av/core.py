"""
Runner for the runtime-monitoring checks.

  ./check <ID> [--tier quick|thorough] [--replay FILE] [--repo DIR] [--jobs N]

The parent process plans the cases of a property (deterministic in VERIF_SEED and tier), splits
them into shards and runs every shard as its own subprocess (`python -m av.worker`) with a
wall-clock watchdog.  Workers import atomica from the repository working tree (never a cached
copy), attach the monitors, run their cases and write one JSON line per case.  The parent
aggregates verdicts, matches violations against known_findings.json, writes evidence/<ID>.json and
replay files and sets the exit code:

  0  held on everything explored (KNOWN-FINDING lines may have been printed)
  1  at least one violation that is not a listed known finding  ("VIOLATION property=.. replay=..")
  2  harness error
  3  inconclusive (deciding monitor never evaluated / too many shards or cases lost)
"""

import argparse
import hashlib
import importlib
import json
import os
import re
import subprocess
import sys
import time

ROOT = os.path.dirname(os.path.dirname(os.path.abspath(__file__)))
PY = "/venv/bin/python"
NCPU = 16


def canon(obj):
    return json.dumps(obj, sort_keys=True, default=_json_default, separators=(",", ":"))


def fingerprint(obj):
    return hashlib.sha1(canon(obj).encode()).hexdigest()[:16]


def _json_default(o):
    try:
        import numpy as np

        if isinstance(o, np.ndarray):
            return o.tolist()
        if isinstance(o, (np.floating,)):
            return float(o)
        if isinstance(o, (np.integer,)):
            return int(o)
        if isinstance(o, (np.bool_,)):
            return bool(o)
    except Exception:
        pass
    if isinstance(o, (set, frozenset)):
        return sorted(o, key=str)
    if isinstance(o, tuple):
        return list(o)
    return repr(o)


def jdump(obj, **kw):
    return json.dumps(obj, default=_json_default, **kw)


def load_known():
    p = os.path.join(ROOT, "known_findings.json")
    if not os.path.exists(p):
        return []
    with open(p) as f:
        return json.load(f)["findings"]


def match_known(known, prop, mechanism):
    """Return the known (unfixed) finding that lists this mechanism, if any.  Entries with status
    'fixed' suppress nothing."""
    for k in known:
        if k.get("property") != prop or k.get("status") != "known":
            continue
        if re.fullmatch(k["mechanism"], mechanism):
            return k
    return None


def prop_module(pid):
    return importlib.import_module("av.props." + pid.lower())


def main(argv=None):
    ap = argparse.ArgumentParser()
    ap.add_argument("prop")
    ap.add_argument("--tier", default=None)
    ap.add_argument("--replay", default=None)
    ap.add_argument("--repo", default=os.environ.get("ATOMICA_VERIF_REPO", "/repo"))
    ap.add_argument("--jobs", type=int, default=int(os.environ.get("VERIF_JOBS", NCPU)))
    ap.add_argument("--seed", type=int, default=None)
    ap.add_argument("--limit", type=int, default=None, help="debug: only the first N cases")
    ap.add_argument("--no-evidence", action="store_true", help="debug: do not rewrite the evidence file")
    args = ap.parse_args(argv)

    pid = args.prop.upper()
    tier = args.tier or os.environ.get("VERIF_TIER") or "quick"
    if tier not in ("quick", "thorough"):
        print("unknown tier", tier)
        return 2
    seed = args.seed if args.seed is not None else int(os.environ.get("VERIF_SEED", "0") or 0)
    repo = os.path.abspath(args.repo)

    if args.replay:
        return replay(pid, args.replay, repo)

    t0 = time.time()
    mod = prop_module(pid)
    meta = mod.META
    ncases = mod.count(tier, seed)
    if args.limit:
        ncases = min(ncases, args.limit)
    jobs = max(1, min(args.jobs, ncases, meta.get("jobs", args.jobs)))
    # evidence-writing runs own .work/<ID>; scratch runs (--no-evidence: sweeps, self-tests) get a directory of their own so
    # that they can run next to each other and next to an evidence run without clobbering its shard files
    if getattr(args, "no_evidence", False):
        import shutil

        for d in os.listdir(os.path.join(ROOT, ".work")) if os.path.isdir(os.path.join(ROOT, ".work")) else []:
            if d.startswith("scratch-%s-" % pid):
                try:
                    os.kill(int(d.rsplit("-", 1)[1]), 0)
                except (OSError, ValueError):
                    shutil.rmtree(os.path.join(ROOT, ".work", d), ignore_errors=True)
        outdir = os.path.join(ROOT, ".work", "scratch-%s-%d" % (pid, os.getpid()))
    else:
        outdir = os.path.join(ROOT, ".work", pid)
    os.makedirs(outdir, exist_ok=True)
    for f in os.listdir(outdir):
        os.remove(os.path.join(outdir, f))

    budget = meta.get("shard_timeout", {}).get(tier, 1500 if tier == "quick" else 7200)
    env = dict(os.environ)
    env.update(
        {
            "PYTHONHASHSEED": "0",
            "PYTHONDONTWRITEBYTECODE": "1",
            "OMP_NUM_THREADS": "1",
            "OPENBLAS_NUM_THREADS": "1",
            "MKL_NUM_THREADS": "1",
            "MPLBACKEND": "agg",
            "ATOMICA_VERIF": "1",
            "ATOMICA_VERIF_REPO": repo,
            "PYTHONPATH": ROOT + os.pathsep + repo,
        }
    )
    procs = []
    for s in range(jobs):
        out = os.path.join(outdir, "shard%02d.jsonl" % s)
        log = open(os.path.join(outdir, "shard%02d.log" % s), "w")
        cmd = [PY, "-m", "av.worker", pid, tier, str(seed), str(s), str(jobs), str(ncases), out]
        procs.append((s, subprocess.Popen(cmd, cwd=ROOT, env=env, stdout=log, stderr=subprocess.STDOUT), out, log))

    lost = []
    deadline = t0 + budget
    for s, p, out, log in procs:
        try:
            rc = p.wait(timeout=max(1, deadline - time.time()))
        except subprocess.TimeoutExpired:
            p.kill()
            p.wait()
            rc = "timeout"
        log.close()
        if rc != 0:
            lost.append((s, rc))

    # ---------------------------------------------------------------- aggregate
    cases = []
    for s, p, out, log in procs:
        if os.path.exists(out):
            with open(out) as f:
                for line in f:
                    line = line.strip()
                    if line:
                        try:
                            cases.append(json.loads(line))
                        except Exception:
                            pass
    return finish(pid, tier, seed, mod, cases, lost, t0, ncases, write_evidence=not args.no_evidence, outdir=outdir)


def finish(pid, tier, seed, mod, cases, lost, t0, ncases, write_evidence=True, outdir=None):
    meta = mod.META
    known = load_known()
    counters = {}
    subclaims = {}
    violations = []
    known_hits = {}
    nontrivial = set()
    n_inconclusive_cases = 0
    n_errors = 0
    samples = []
    for c in cases:
        for k, v in (c.get("stats") or {}).items():
            if isinstance(v, (int, float)):
                counters[k] = counters.get(k, 0) + v
        if c.get("error"):
            n_errors += 1
        if c.get("inconclusive"):
            n_inconclusive_cases += 1
        if c.get("nontrivial"):
            nontrivial.add(c.get("fingerprint"))
        if c.get("sample") is not None and len(samples) < 4:
            samples.append(c["sample"])
        for r in c.get("records", []):
            sc_ = subclaims.setdefault(r["sub"], {"held": 0, "violated": 0, "inconclusive": 0})
            sc_[r["verdict"]] += r.get("n", 1)
            if r["verdict"] == "violated":
                k = match_known(known, pid, r["mechanism"])
                if k is not None:
                    known_hits.setdefault(k["mechanism"], [k, 0])
                    known_hits[k["mechanism"]][1] += 1
                else:
                    violations.append((c, r))

    # replay files for unlisted violations (first few per mechanism)
    rdir = os.path.join(ROOT, "replays" if write_evidence else ".work/replays-scratch", pid)
    os.makedirs(rdir, exist_ok=True)
    for f in os.listdir(rdir):
        os.remove(os.path.join(rdir, f))
    per_mech = {}
    lines = []
    for c, r in violations:
        m = r["mechanism"]
        per_mech[m] = per_mech.get(m, 0) + 1
        if per_mech[m] > 3:
            continue
        name = "%s_%s.json" % (re.sub(r"[^A-Za-z0-9]+", "_", m)[:60], re.sub(r"[^A-Za-z0-9]+", "-", str(c.get("case_id"))))
        path = os.path.join(rdir, name)
        with open(path, "w") as f:
            f.write(jdump({"property": pid, "tier": tier, "seed": seed, "case_id": c.get("case_id"), "case": c.get("case"), "record": r, "command": "./check %s --replay %s" % (pid, os.path.relpath(path, ROOT))}, indent=1))
        lines.append("VIOLATION property=%s replay=%s mechanism=%s" % (pid, os.path.relpath(path, ROOT), m))

    for mech, (k, n) in sorted(known_hits.items()):
        print("KNOWN-FINDING: property=%s %s [%s; %d occurrence(s) this run]" % (pid, k["what"], k["mechanism"], n))

    # deciding-monitor reach
    inconclusive_reasons = []
    for key in meta.get("deciding_counters", []):
        if counters.get(key, 0) <= 0:
            inconclusive_reasons.append("deciding monitor counter %s is 0" % key)
    if lost:
        inconclusive_reasons.append("lost shards: %s" % lost)
    if cases and (n_errors + n_inconclusive_cases) > meta.get("max_error_rate", 0.25) * len(cases):
        inconclusive_reasons.append("%d of %d cases errored or were inconclusive" % (n_errors + n_inconclusive_cases, len(cases)))
    if len(cases) < ncases and not lost:
        inconclusive_reasons.append("only %d of %d planned cases reported" % (len(cases), ncases))
    if len(nontrivial) < 2:
        inconclusive_reasons.append("fewer than 2 distinct non-trivial cases")

    wall = time.time() - t0
    if write_evidence:
        ev = {
            "property_id": pid,
            "tier": tier,
            "seed": seed,
            "level": meta.get("level", "exploration"),
            "coverage": {
                "evaluations": len(cases),
                "distinct_nontrivial": len(nontrivial),
                "rule": meta["rule"],
                "samples": samples if samples else [c.get("case") for c in cases[:2]],
                "planned_cases": ncases,
                "monitor_counters": {k: counters[k] for k in sorted(counters)},
                "sub_claims": subclaims,
                "case_errors": n_errors,
                "case_inconclusive": n_inconclusive_cases,
                "known_findings_matched": {m: n for m, (k, n) in known_hits.items()},
                "inconclusive_reasons": inconclusive_reasons,
                "exhaustive": bool(meta.get("exhaustive", {}).get(tier, False)),
            },
            "assumptions": meta.get("assumptions", []),
            "wall_s": round(wall, 2),
            "violations": len(violations),
        }
        if "explanation" in meta:
            ev["coverage"]["explanation"] = meta["explanation"]
        if hasattr(mod, "extra_evidence"):
            try:
                ev["coverage"].update(mod.extra_evidence(cases))
            except Exception as e:  # pragma: no cover
                ev["coverage"]["extra_evidence_error"] = repr(e)
        os.makedirs(os.path.join(ROOT, "evidence"), exist_ok=True)
        with open(os.path.join(ROOT, "evidence", pid + ".json"), "w") as f:
            f.write(jdump(ev, indent=1))

    print("%s tier=%s seed=%d cases=%d nontrivial=%d violations=%d known=%d errors=%d wall=%.1fs" % (pid, tier, seed, len(cases), len(nontrivial), len(violations), sum(n for k, n in known_hits.values()), n_errors, wall))
    for k in sorted(subclaims):
        v = subclaims[k]
        print("   %-44s held=%-8d violated=%-6d inconclusive=%d" % (k, v["held"], v["violated"], v["inconclusive"]))
    if violations:
        for l in lines:
            print(l)
        return 1
    if inconclusive_reasons:
        print("INCONCLUSIVE property=%s %s" % (pid, "; ".join(inconclusive_reasons)))
        if outdir:
            print("   (worker logs in %s)" % outdir)
        return 3
    return 0


def replay(pid, path, repo):
    env = dict(os.environ)
    env.update({"PYTHONHASHSEED": "0", "PYTHONDONTWRITEBYTECODE": "1", "OMP_NUM_THREADS": "1", "MPLBACKEND": "agg", "ATOMICA_VERIF": "1", "ATOMICA_VERIF_REPO": repo, "PYTHONPATH": ROOT + os.pathsep + repo})
    out = os.path.join(ROOT, ".work", pid + "_replay.jsonl")
    os.makedirs(os.path.dirname(out), exist_ok=True)
    if os.path.exists(out):
        os.remove(out)
    rc = subprocess.call([PY, "-m", "av.worker", pid, "--replay", os.path.abspath(path), out], cwd=ROOT, env=env)
    if rc != 0:
        print("replay worker failed rc=%s" % rc)
        return 2
    known = load_known()
    bad = 0
    with open(out) as f:
        for line in f:
            c = json.loads(line)
            for r in c.get("records", []):
                if r["verdict"] == "violated":
                    k = match_known(known, pid, r["mechanism"])
                    if k:
                        print("KNOWN-FINDING: property=%s %s" % (pid, k["what"]))
                    else:
                        bad += 1
                        print("VIOLATION property=%s replay=%s mechanism=%s" % (pid, path, r["mechanism"]))
                        print(jdump(r.get("witness"), indent=1)[:4000])
    return 1 if bad else 0

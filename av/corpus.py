"""Corpus workload: every framework/databook(/program book) combination shipped with the repository (library and test
fixtures) that loads, run under perturbations - other step sizes, short horizons, calibration factors from mild to
hostile, programmes switched on at arbitrary (also off-grid) years with scaled budgets.  These models contain structures
the generator does not produce (several population types, interactions, derivative parameters, hand-written junction /
duration-group layouts), so the run-level monitors see them too.  The files are read from the repository under test."""

import os

import numpy as np

MODES = ["none", "mild", "mild", "hostile", "hostile", "zeroing"]
DTS = [1.0, 0.5, 0.25, 0.2, 0.1, 1 / 12, 1 / 52, 1 / 3, 0.3]

PAIRS = [
 [
  "tests/framework_extra_pages.xlsx",
  "tests/sir_databook_all.xlsx",
  []
 ],
 [
  "tests/framework_extra_pages.xlsx",
  "atomica/library/sir_databook.xlsx",
  [
   "tests/sir_progbook_comment_test.xlsx",
   "atomica/library/sir_progbook.xlsx"
  ]
 ],
 [
  "tests/framework_missing_page_column.xlsx",
  "tests/sir_databook_all.xlsx",
  []
 ],
 [
  "tests/framework_missing_page_column.xlsx",
  "atomica/library/sir_databook.xlsx",
  [
   "tests/sir_progbook_comment_test.xlsx",
   "atomica/library/sir_progbook.xlsx"
  ]
 ],
 [
  "tests/framework_mixed_pages.xlsx",
  "tests/sir_databook_all.xlsx",
  []
 ],
 [
  "tests/framework_mixed_pages.xlsx",
  "atomica/library/sir_databook.xlsx",
  [
   "tests/sir_progbook_comment_test.xlsx",
   "atomica/library/sir_progbook.xlsx"
  ]
 ],
 [
  "tests/framework_no_pages.xlsx",
  "tests/sir_databook_all.xlsx",
  []
 ],
 [
  "tests/framework_no_pages.xlsx",
  "atomica/library/sir_databook.xlsx",
  [
   "tests/sir_progbook_comment_test.xlsx",
   "atomica/library/sir_progbook.xlsx"
  ]
 ],
 [
  "tests/framework_par_min_max_test.xlsx",
  "tests/par_min_max_databook.xlsx",
  []
 ],
 [
  "tests/framework_sir_dynamic.xlsx",
  "tests/databook_sir_dynamic.xlsx",
  []
 ],
 [
  "tests/framework_sir_dynamic.xlsx",
  "tests/databook_sir_dynamic_extra.xlsx",
  []
 ],
 [
  "tests/framework_stochastic_test.xlsx",
  "tests/databook_sir_dynamic.xlsx",
  []
 ],
 [
  "tests/framework_stochastic_test.xlsx",
  "tests/databook_sir_dynamic_extra.xlsx",
  []
 ],
 [
  "tests/sir_framework_ignore.xlsx",
  "tests/sir_databook_all.xlsx",
  []
 ],
 [
  "tests/sir_framework_ignore.xlsx",
  "atomica/library/sir_databook.xlsx",
  [
   "tests/sir_progbook_comment_test.xlsx",
   "atomica/library/sir_progbook.xlsx"
  ]
 ],
 [
  "tests/test_framework_spaces.xlsx",
  "tests/sir_databook_all.xlsx",
  []
 ],
 [
  "tests/test_framework_spaces.xlsx",
  "atomica/library/sir_databook.xlsx",
  [
   "tests/sir_progbook_comment_test.xlsx",
   "atomica/library/sir_progbook.xlsx"
  ]
 ],
 [
  "tests/test_no_compartment_framework.xlsx",
  "tests/test_no_compartment_databook.xlsx",
  [
   "tests/test_no_compartment_progbook.xlsx"
  ]
 ],
 [
  "tests/test_order_framework.xlsx",
  "tests/test_order_databook.xlsx",
  [
   "atomica/library/combined_progbook.xlsx"
  ]
 ],
 [
  "tests/test_program_calc_framework.xlsx",
  "tests/test_program_calc_databook.xlsx",
  [
   "tests/test_program_calc_progbook.xlsx"
  ]
 ],
 [
  "tests/test_single_char_framework.xlsx",
  "tests/sir_databook_all.xlsx",
  []
 ],
 [
  "tests/test_single_char_framework.xlsx",
  "atomica/library/sir_databook.xlsx",
  [
   "tests/sir_progbook_comment_test.xlsx",
   "atomica/library/sir_progbook.xlsx"
  ]
 ],
 [
  "tests/test_uncertainty_framework.xlsx",
  "tests/test_uncertainty_databook.xlsx",
  [
   "tests/test_uncertainty_high_progbook.xlsx",
   "tests/test_uncertainty_low_progbook.xlsx",
   "atomica/library/hypertension_progbook.xlsx"
  ]
 ],
 [
  "tests/timed_tb_framework.xlsx",
  "tests/timed_tb_databook.xlsx",
  []
 ],
 [
  "tests/timed_test_eligibility_framework.xlsx",
  "tests/timed_test_transfer_databook.xlsx",
  []
 ],
 [
  "tests/timed_test_eligibility_framework.xlsx",
  "tests/timed_test_transfer_databook_2.xlsx",
  []
 ],
 [
  "tests/timed_test_eligibility_framework.xlsx",
  "tests/timed_test_transfer_databook_3.xlsx",
  []
 ],
 [
  "tests/timed_test_framework.xlsx",
  "tests/timed_test_databook.xlsx",
  []
 ],
 [
  "tests/timed_test_transfer_framework.xlsx",
  "tests/timed_test_transfer_databook.xlsx",
  []
 ],
 [
  "tests/timed_test_transfer_framework.xlsx",
  "tests/timed_test_transfer_databook_2.xlsx",
  []
 ],
 [
  "tests/timed_test_transfer_framework.xlsx",
  "tests/timed_test_transfer_databook_3.xlsx",
  []
 ],
 [
  "atomica/library/cervicalcancer_framework.xlsx",
  "atomica/library/cervicalcancer_databook.xlsx",
  [
   "atomica/library/cervicalcancer_progbook.xlsx"
  ]
 ],
 [
  "atomica/library/combined_framework.xlsx",
  "atomica/library/combined_databook.xlsx",
  [
   "atomica/library/combined_progbook.xlsx"
  ]
 ],
 [
  "atomica/library/diabetes_framework.xlsx",
  "atomica/library/diabetes_databook.xlsx",
  [
   "atomica/library/diabetes_progbook.xlsx"
  ]
 ],
 [
  "atomica/library/dt_framework.xlsx",
  "atomica/library/dt_databook.xlsx",
  []
 ],
 [
  "atomica/library/hiv_dyn_framework.xlsx",
  "atomica/library/hiv_dyn_databook.xlsx",
  [
   "atomica/library/hiv_dyn_progbook.xlsx"
  ]
 ],
 [
  "atomica/library/hiv_framework.xlsx",
  "atomica/library/hiv_databook.xlsx",
  [
   "atomica/library/hiv_progbook.xlsx"
  ]
 ],
 [
  "atomica/library/hypertension_dyn_framework.xlsx",
  "atomica/library/hypertension_dyn_databook.xlsx",
  [
   "atomica/library/hypertension_dyn_progbook.xlsx"
  ]
 ],
 [
  "atomica/library/hypertension_framework.xlsx",
  "atomica/library/hypertension_databook.xlsx",
  [
   "tests/test_uncertainty_high_progbook.xlsx",
   "tests/test_uncertainty_low_progbook.xlsx",
   "atomica/library/hypertension_progbook.xlsx"
  ]
 ],
 [
  "atomica/library/service_framework.xlsx",
  "atomica/library/service_databook.xlsx",
  []
 ],
 [
  "atomica/library/sir_framework.xlsx",
  "tests/sir_databook_all.xlsx",
  []
 ],
 [
  "atomica/library/sir_framework.xlsx",
  "atomica/library/sir_databook.xlsx",
  [
   "tests/sir_progbook_comment_test.xlsx",
   "atomica/library/sir_progbook.xlsx"
  ]
 ],
 [
  "atomica/library/sir_vaccine_framework.xlsx",
  "atomica/library/sir_vaccine_databook.xlsx",
  [
   "tests/sir_progbook_comment_test.xlsx",
   "atomica/library/sir_progbook.xlsx"
  ]
 ],
 [
  "atomica/library/tb_framework.xlsx",
  "atomica/library/tb_databook.xlsx",
  [
   "atomica/library/tb_progbook.xlsx"
  ]
 ],
 [
  "atomica/library/tb_simple_dyn_framework.xlsx",
  "atomica/library/tb_simple_dyn_databook.xlsx",
  [
   "atomica/library/tb_simple_dyn_progbook.xlsx",
   "atomica/library/tb_simple_progbook.xlsx"
  ]
 ],
 [
  "atomica/library/tb_simple_framework.xlsx",
  "atomica/library/tb_simple_databook.xlsx",
  [
   "atomica/library/tb_simple_progbook.xlsx"
  ]
 ],
 [
  "atomica/library/udt_dyn_framework.xlsx",
  "atomica/library/udt_dyn_databook.xlsx",
  [
   "atomica/library/udt_dyn_progbook.xlsx",
   "atomica/library/udt_progbook.xlsx"
  ]
 ],
 [
  "atomica/library/udt_framework.xlsx",
  "atomica/library/udt_databook.xlsx",
  [
   "atomica/library/udt_dyn_progbook.xlsx",
   "atomica/library/udt_progbook.xlsx"
  ]
 ],
 [
  "atomica/library/usdt_framework.xlsx",
  "atomica/library/usdt_databook.xlsx",
  [
   "atomica/library/udt_dyn_progbook.xlsx",
   "atomica/library/udt_progbook.xlsx",
   "atomica/library/usdt_progbook.xlsx"
  ]
 ]
]

def repo_root():
    return os.environ.get("ATOMICA_VERIF_REPO", "/repo")


def make_case(rng, max_steps=40, prefer=()):
    """prefer: substrings of framework file names; 70% of the draws are then taken from the matching models."""
    i = int(rng.integers(0, len(PAIRS) + len(AUTO)))
    if prefer and rng.random() < 0.7:
        names = [x[0] for x in PAIRS] + list(AUTO)
        match = [k for k, n in enumerate(names) if any(p in n.split("/")[-1] for p in prefer)]
        if match:
            i = match[int(rng.integers(0, len(match)))]
    fw, db, pbs = PAIRS[i] if i < len(PAIRS) else (AUTO[i - len(PAIRS)], None, [])  # databook None: made by auto_project
    pb = pbs[int(rng.integers(0, len(pbs)))] if pbs and rng.random() < 0.5 else None
    dt = float(DTS[int(rng.integers(0, len(DTS)))])
    steps = int(rng.integers(3, max_steps + 1))
    return {
        "kind": "corpus",
        "framework": fw,
        "databook": db,
        "progbook": pb,
        "dt": dt,
        "steps": steps,
        "mode": MODES[int(rng.integers(0, len(MODES)))],
        "p_perturb": float(rng.choice([0.15, 0.4, 1.0])),
        "pseed": int(rng.integers(0, 2**31 - 1)),
        "prog_start_step": float(rng.choice([0, 0, 1, 2, 2.5, 3.7])),
        "budget_factor": float(rng.choice([1.0, 1.0, 0.0, 0.1, 10.0, 1000.0])),
    }


def build(case):
    """-> (project, progset or None, instructions or None)"""
    import atomica as at

    root = repo_root()
    rng = np.random.default_rng(case["pseed"])
    if case["databook"] is None:
        P = auto_project(case["framework"], np.random.default_rng([case["pseed"], 1]))
    else:
        P = at.Project(framework=os.path.join(root, case["framework"]), databook=os.path.join(root, case["databook"]), do_run=False)
    start = float(P.settings.sim_start)
    P.settings.update_time_vector(end=start + case["steps"] * case["dt"], dt=case["dt"])
    ps = P.parsets[0]
    fwpars = set(P.framework.pars.index)
    mode = case["mode"]
    if mode != "none":
        for par in ps.all_pars():
            if par.name not in fwpars and mode != "mild":
                continue  # hostile factors on initial sizes only produce refused initialisations
            if rng.random() < 0.15:  # the all-population (meta) calibration factor
                par.meta_y_factor = float(rng.uniform(0.7, 1.5)) if (mode == "mild" or par.name not in fwpars) else float(10 ** rng.uniform(-1, 1))
            for pop in par.pops:
                if rng.random() < case["p_perturb"]:
                    if mode == "mild":
                        f = float(rng.uniform(0.5, 2.0)) if par.name in fwpars else float(rng.uniform(0.9, 1.1))
                    elif mode == "hostile":
                        f = float(10 ** rng.uniform(-3, 3))
                    else:
                        f = 0.0 if rng.random() < 0.5 else float(rng.uniform(0.5, 2.0))
                    par.y_factor[pop] = f
    progset = instr = None
    if case["progbook"]:
        progset = P.load_progbook(os.path.join(root, case["progbook"]))
        ystart = start + case["prog_start_step"] * case["dt"]
        alloc = None
        if case["budget_factor"] != 1.0:
            alloc = {k: float(v[0]) * case["budget_factor"] for k, v in progset.get_alloc(np.array([ystart])).items()}
        coverage = {name: float(rng.uniform(0, 1)) for name, prog in progset.programs.items() if not prog.target_comps}  # such programmes need an explicit coverage
        instr = at.ProgramInstructions(start_year=ystart, alloc=alloc, coverage=coverage or None)
    return P, progset, instr


def describe(case):
    return {k: case[k] for k in ("framework", "databook", "progbook", "dt", "steps", "mode", "budget_factor")}


# frameworks shipped without a databook that loads with them: the harness makes one with ProjectData.new and fills it
AUTO = [
    "atomica/library/malaria_framework.xlsx",
    "tests/framework_derivative_test.xlsx",
    "tests/framework_junction_feed_forward_test.xlsx",
    "tests/framework_junction_feed_forward_timed_test.xlsx",
    "tests/framework_junction_remainder_test.xlsx",
    "tests/framework_junction_remainder_test_2.xlsx",
    "tests/framework_junction_test.xlsx",
    "tests/framework_junction_timed_remainder_test.xlsx",
    "tests/framework_seasonal_test.xlsx",
    "tests/test_only_junctions_framework.xlsx",
    "tests/test_shortcut_init_framework_1.xlsx",
    "tests/test_shortcut_init_framework_2.xlsx",
    "tests/test_shortcut_init_framework_4.xlsx",
    "tests/timed_test_indirect2_framework.xlsx",
    "tests/timed_test_indirect_framework.xlsx",
    "tests/test_indirect_programs_framework.xlsx",
    "tests/test_no_initialization.xlsx",
    "tests/framework_blank_sheet.xlsx",
    # the junction fixtures written out twice, for two population types (code names of the second type carry the suffix _k):
    # residual junction links, flushes and splits must work in every population type
    "twin:tests/framework_junction_remainder_test.xlsx",
    "twin:tests/framework_junction_remainder_test_2.xlsx",
    "twin:tests/framework_junction_test.xlsx",
]


def twin_framework(path):
    """A single-type fixture framework (sheets Databook Pages / Compartments / Parameters / Transitions, no functions) as a
    framework with two population types; returns an atomica ProjectFramework."""
    import io
    import atomica as at
    import openpyxl
    import sciris as sc

    types = [("adults", "Adults", ""), ("kids", "Kids", "_k")]

    def table(ws):
        rows = [list(r) for r in ws.iter_rows(values_only=True)]
        ncol = next((i for i, v in enumerate(rows[0]) if v is None), len(rows[0]))
        out = []
        for r in rows:
            if all(v is None for v in r[:ncol]):
                break
            out.append(r[:ncol])
        return out

    src = openpyxl.load_workbook(path, data_only=True)
    wb = openpyxl.Workbook()
    wb.remove(wb.active)
    ws = wb.create_sheet("Databook Pages")
    for r in table(src["Databook Pages"]):
        ws.append(r)
    ws = wb.create_sheet("Population types")
    ws.append(["Code name", "Description"])
    for code, label, _ in types:
        ws.append([code, label])
    for sheet in ["Compartments", "Parameters"]:
        tab = table(src[sheet])
        ws = wb.create_sheet(sheet)
        ws.append(tab[0] + ["Population type"])
        for code, label, sfx in types:
            for r in tab[1:]:
                ws.append([r[0] + sfx, "%s (%s)" % (r[1], label)] + r[2:] + [code])
    rows_ = [list(r) for r in src["Transitions"].iter_rows(values_only=True)]
    ncol_ = 1 + max(i for i, v in enumerate(rows_[0]) if v is not None)  # (the top-left cell of the matrix may be blank)
    tab = []
    for r in rows_:
        if all(v is None for v in r[:ncol_]) and tab:
            break
        tab.append(r[:ncol_])
    ws = wb.create_sheet("Transitions")
    for code, label, sfx in types:
        ws.append([code] + [c + sfx for c in tab[0][1:]])
        for r in tab[1:]:
            ws.append([r[0] + sfx] + [v if v is None or str(v).strip() == ">" else ", ".join(x.strip() + sfx for x in str(v).split(",")) for v in r[1:]])
        ws.append([None])
    bio = io.BytesIO()
    wb.save(bio)
    return at.ProjectFramework(sc.Spreadsheet(io.BytesIO(bio.getvalue())))


def auto_project(fw_path, rng, pops_per_type=None):
    """Project for a framework without a databook: ProjectData.new + values (framework defaults where given, otherwise
    random valid numbers; compartments random and characteristics set to the sum of their members, so that the
    initialisation is consistent)."""
    import atomica as at
    import pandas as pd

    fw = twin_framework(os.path.join(repo_root(), fw_path[len("twin:"):])) if fw_path.startswith("twin:") else at.ProjectFramework(os.path.join(repo_root(), fw_path))
    pops = {}
    for ti, ptype in enumerate(fw.pop_types.keys()):
        for k in range(int(pops_per_type or rng.integers(1, 3))):
            pops["grp%s%d" % ("abcd"[ti % 4], k)] = {"label": "Pop %s %d" % (ptype, k), "type": ptype}
    first = list(fw.pop_types.keys())[0]
    n_first = len([p for p in pops.values() if p["type"] == first])
    transfers = 1 if n_first >= 2 and rng.random() < 0.6 else 0
    data = at.ProjectData.new(fw, np.arange(2000.0, 2004.0), pops=pops, transfers=transfers)
    comp_val = {}

    def default_of(df, name):
        v = df.loc[name].get("default value") if "default value" in df.columns else None
        return None if v is None or pd.isna(v) else float(v)

    for name in fw.comps.index:
        for pop in pops:
            d = default_of(fw.comps, name)
            comp_val[(name, pop)] = d if d is not None else (0.0 if (fw.comps.loc[name]["is junction"] == "y" or fw.comps.loc[name]["is sink"] == "y" or fw.comps.loc[name]["is source"] == "y") else float(np.round(10 ** rng.uniform(0.5, 3.5), 2)))
    for name, tdve in data.tdve.items():
        for pop, ts in tdve.ts.items():
            if ts.has_data:
                continue
            if name in fw.comps.index:
                v = comp_val[(name, pop)]
            elif name in fw.characs.index:
                d = default_of(fw.characs, name)
                members = fw.get_charac_includes(name)
                num = sum(comp_val[(m, pop)] for m in members)
                den = fw.characs.loc[name]["denominator"]
                if isinstance(den, str):
                    dmem = [den] if den in fw.comps.index else fw.get_charac_includes(den)
                    dsum = sum(comp_val[(m, pop)] for m in dmem)
                    v = num / dsum if dsum > 0 else 0.0
                else:
                    v = num
                if d is not None and not isinstance(den, str) and False:
                    v = d
            else:
                row = fw.pars.loc[name]
                d = default_of(fw.pars, name)
                fmt = row["format"]
                if d is not None:
                    v = d
                elif fmt in ("probability", "rate"):
                    v = float(np.round(rng.uniform(0, 0.6), 3))
                elif fmt == "proportion":
                    v = float(np.round(rng.uniform(0.05, 1.0), 3))
                elif fmt == "duration":
                    v = float(np.round(rng.uniform(0.3, 6.0), 3))
                elif fmt == "number":
                    v = float(np.round(rng.uniform(0, 60), 2))
                else:
                    v = float(np.round(rng.uniform(0, 1), 3))
                lo, hi = row.get("minimum value"), row.get("maximum value")
                if lo is not None and np.isfinite(lo):
                    v = max(v, float(lo))
                if hi is not None and np.isfinite(hi):
                    v = min(v, float(hi))
            ts.insert(None, v)
    for tdc in list(data.transfers) + list(data.interpops):
        for key in list(tdc.ts.keys()) if tdc.type == "interaction" else []:
            if not tdc.ts[key].has_data:
                tdc.ts[key].insert(None, float(np.round(rng.uniform(0, 2), 2)))
        if tdc.type == "transfer":
            for a in tdc.from_pops:
                for b in tdc.to_pops:
                    if a != b and rng.random() < 0.7:
                        ts = at.TimeSeries(units="probability") if rng.random() < 0.5 else at.TimeSeries(units="number")
                        ts.insert(None, float(np.round(rng.uniform(0, 0.2), 3)) if ts.units == "probability" else float(np.round(rng.uniform(0, 20), 1)))
                        tdc.ts[(a, b)] = ts
    P = at.Project(framework=fw, databook=data.to_spreadsheet(), do_run=False)
    return P

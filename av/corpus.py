"""Corpus workload: every framework/databook(/program book) combination shipped with the repository (library and test
fixtures) that loads, run under perturbations - other step sizes, short horizons, calibration factors from mild to
hostile, programmes switched on at arbitrary (also off-grid) years with scaled budgets.  These models contain structures
the generator does not produce (several population types, interactions, derivative parameters, hand-written junction /
duration-group layouts), so the run-level monitors see them too.  The files are read from the repository under test."""

import os

import numpy as np

MODES = ["none", "mild", "mild", "hostile", "hostile", "zeroing"]
DTS = [1.0, 0.5, 0.25, 0.2, 0.1, 1 / 12, 1 / 52, 1 / 3, 0.3]

PAIRS = [
 [
  "tests/framework_extra_pages.xlsx",
  "tests/sir_databook_all.xlsx",
  []
 ],
 [
  "tests/framework_extra_pages.xlsx",
  "atomica/library/sir_databook.xlsx",
  [
   "tests/sir_progbook_comment_test.xlsx",
   "atomica/library/sir_progbook.xlsx"
  ]
 ],
 [
  "tests/framework_missing_page_column.xlsx",
  "tests/sir_databook_all.xlsx",
  []
 ],
 [
  "tests/framework_missing_page_column.xlsx",
  "atomica/library/sir_databook.xlsx",
  [
   "tests/sir_progbook_comment_test.xlsx",
   "atomica/library/sir_progbook.xlsx"
  ]
 ],
 [
  "tests/framework_mixed_pages.xlsx",
  "tests/sir_databook_all.xlsx",
  []
 ],
 [
  "tests/framework_mixed_pages.xlsx",
  "atomica/library/sir_databook.xlsx",
  [
   "tests/sir_progbook_comment_test.xlsx",
   "atomica/library/sir_progbook.xlsx"
  ]
 ],
 [
  "tests/framework_no_pages.xlsx",
  "tests/sir_databook_all.xlsx",
  []
 ],
 [
  "tests/framework_no_pages.xlsx",
  "atomica/library/sir_databook.xlsx",
  [
   "tests/sir_progbook_comment_test.xlsx",
   "atomica/library/sir_progbook.xlsx"
  ]
 ],
 [
  "tests/framework_par_min_max_test.xlsx",
  "tests/par_min_max_databook.xlsx",
  []
 ],
 [
  "tests/framework_sir_dynamic.xlsx",
  "tests/databook_sir_dynamic.xlsx",
  []
 ],
 [
  "tests/framework_sir_dynamic.xlsx",
  "tests/databook_sir_dynamic_extra.xlsx",
  []
 ],
 [
  "tests/framework_stochastic_test.xlsx",
  "tests/databook_sir_dynamic.xlsx",
  []
 ],
 [
  "tests/framework_stochastic_test.xlsx",
  "tests/databook_sir_dynamic_extra.xlsx",
  []
 ],
 [
  "tests/sir_framework_ignore.xlsx",
  "tests/sir_databook_all.xlsx",
  []
 ],
 [
  "tests/sir_framework_ignore.xlsx",
  "atomica/library/sir_databook.xlsx",
  [
   "tests/sir_progbook_comment_test.xlsx",
   "atomica/library/sir_progbook.xlsx"
  ]
 ],
 [
  "tests/test_framework_spaces.xlsx",
  "tests/sir_databook_all.xlsx",
  []
 ],
 [
  "tests/test_framework_spaces.xlsx",
  "atomica/library/sir_databook.xlsx",
  [
   "tests/sir_progbook_comment_test.xlsx",
   "atomica/library/sir_progbook.xlsx"
  ]
 ],
 [
  "tests/test_no_compartment_framework.xlsx",
  "tests/test_no_compartment_databook.xlsx",
  [
   "tests/test_no_compartment_progbook.xlsx"
  ]
 ],
 [
  "tests/test_order_framework.xlsx",
  "tests/test_order_databook.xlsx",
  [
   "atomica/library/combined_progbook.xlsx"
  ]
 ],
 [
  "tests/test_program_calc_framework.xlsx",
  "tests/test_program_calc_databook.xlsx",
  [
   "tests/test_program_calc_progbook.xlsx"
  ]
 ],
 [
  "tests/test_single_char_framework.xlsx",
  "tests/sir_databook_all.xlsx",
  []
 ],
 [
  "tests/test_single_char_framework.xlsx",
  "atomica/library/sir_databook.xlsx",
  [
   "tests/sir_progbook_comment_test.xlsx",
   "atomica/library/sir_progbook.xlsx"
  ]
 ],
 [
  "tests/test_uncertainty_framework.xlsx",
  "tests/test_uncertainty_databook.xlsx",
  [
   "tests/test_uncertainty_high_progbook.xlsx",
   "tests/test_uncertainty_low_progbook.xlsx",
   "atomica/library/hypertension_progbook.xlsx"
  ]
 ],
 [
  "tests/timed_tb_framework.xlsx",
  "tests/timed_tb_databook.xlsx",
  []
 ],
 [
  "tests/timed_test_eligibility_framework.xlsx",
  "tests/timed_test_transfer_databook.xlsx",
  []
 ],
 [
  "tests/timed_test_eligibility_framework.xlsx",
  "tests/timed_test_transfer_databook_2.xlsx",
  []
 ],
 [
  "tests/timed_test_eligibility_framework.xlsx",
  "tests/timed_test_transfer_databook_3.xlsx",
  []
 ],
 [
  "tests/timed_test_framework.xlsx",
  "tests/timed_test_databook.xlsx",
  []
 ],
 [
  "tests/timed_test_transfer_framework.xlsx",
  "tests/timed_test_transfer_databook.xlsx",
  []
 ],
 [
  "tests/timed_test_transfer_framework.xlsx",
  "tests/timed_test_transfer_databook_2.xlsx",
  []
 ],
 [
  "tests/timed_test_transfer_framework.xlsx",
  "tests/timed_test_transfer_databook_3.xlsx",
  []
 ],
 [
  "atomica/library/cervicalcancer_framework.xlsx",
  "atomica/library/cervicalcancer_databook.xlsx",
  [
   "atomica/library/cervicalcancer_progbook.xlsx"
  ]
 ],
 [
  "atomica/library/combined_framework.xlsx",
  "atomica/library/combined_databook.xlsx",
  [
   "atomica/library/combined_progbook.xlsx"
  ]
 ],
 [
  "atomica/library/diabetes_framework.xlsx",
  "atomica/library/diabetes_databook.xlsx",
  [
   "atomica/library/diabetes_progbook.xlsx"
  ]
 ],
 [
  "atomica/library/dt_framework.xlsx",
  "atomica/library/dt_databook.xlsx",
  []
 ],
 [
  "atomica/library/hiv_dyn_framework.xlsx",
  "atomica/library/hiv_dyn_databook.xlsx",
  [
   "atomica/library/hiv_dyn_progbook.xlsx"
  ]
 ],
 [
  "atomica/library/hiv_framework.xlsx",
  "atomica/library/hiv_databook.xlsx",
  [
   "atomica/library/hiv_progbook.xlsx"
  ]
 ],
 [
  "atomica/library/hypertension_dyn_framework.xlsx",
  "atomica/library/hypertension_dyn_databook.xlsx",
  [
   "atomica/library/hypertension_dyn_progbook.xlsx"
  ]
 ],
 [
  "atomica/library/hypertension_framework.xlsx",
  "atomica/library/hypertension_databook.xlsx",
  [
   "tests/test_uncertainty_high_progbook.xlsx",
   "tests/test_uncertainty_low_progbook.xlsx",
   "atomica/library/hypertension_progbook.xlsx"
  ]
 ],
 [
  "atomica/library/service_framework.xlsx",
  "atomica/library/service_databook.xlsx",
  []
 ],
 [
  "atomica/library/sir_framework.xlsx",
  "tests/sir_databook_all.xlsx",
  []
 ],
 [
  "atomica/library/sir_framework.xlsx",
  "atomica/library/sir_databook.xlsx",
  [
   "tests/sir_progbook_comment_test.xlsx",
   "atomica/library/sir_progbook.xlsx"
  ]
 ],
 [
  "atomica/library/sir_vaccine_framework.xlsx",
  "atomica/library/sir_vaccine_databook.xlsx",
  [
   "tests/sir_progbook_comment_test.xlsx",
   "atomica/library/sir_progbook.xlsx"
  ]
 ],
 [
  "atomica/library/tb_framework.xlsx",
  "atomica/library/tb_databook.xlsx",
  [
   "atomica/library/tb_progbook.xlsx"
  ]
 ],
 [
  "atomica/library/tb_simple_dyn_framework.xlsx",
  "atomica/library/tb_simple_dyn_databook.xlsx",
  [
   "atomica/library/tb_simple_dyn_progbook.xlsx",
   "atomica/library/tb_simple_progbook.xlsx"
  ]
 ],
 [
  "atomica/library/tb_simple_framework.xlsx",
  "atomica/library/tb_simple_databook.xlsx",
  [
   "atomica/library/tb_simple_progbook.xlsx"
  ]
 ],
 [
  "atomica/library/udt_dyn_framework.xlsx",
  "atomica/library/udt_dyn_databook.xlsx",
  [
   "atomica/library/udt_dyn_progbook.xlsx",
   "atomica/library/udt_progbook.xlsx"
  ]
 ],
 [
  "atomica/library/udt_framework.xlsx",
  "atomica/library/udt_databook.xlsx",
  [
   "atomica/library/udt_dyn_progbook.xlsx",
   "atomica/library/udt_progbook.xlsx"
  ]
 ],
 [
  "atomica/library/usdt_framework.xlsx",
  "atomica/library/usdt_databook.xlsx",
  [
   "atomica/library/udt_dyn_progbook.xlsx",
   "atomica/library/udt_progbook.xlsx",
   "atomica/library/usdt_progbook.xlsx"
  ]
 ]
]

def repo_root():
    return os.environ.get("ATOMICA_VERIF_REPO", "/repo")


def make_case(rng, max_steps=40):
    fw, db, pbs = PAIRS[int(rng.integers(0, len(PAIRS)))]
    pb = pbs[int(rng.integers(0, len(pbs)))] if pbs and rng.random() < 0.5 else None
    dt = float(DTS[int(rng.integers(0, len(DTS)))])
    steps = int(rng.integers(3, max_steps + 1))
    return {
        "kind": "corpus",
        "framework": fw,
        "databook": db,
        "progbook": pb,
        "dt": dt,
        "steps": steps,
        "mode": MODES[int(rng.integers(0, len(MODES)))],
        "p_perturb": float(rng.choice([0.15, 0.4, 1.0])),
        "pseed": int(rng.integers(0, 2**31 - 1)),
        "prog_start_step": float(rng.choice([0, 0, 1, 2, 2.5, 3.7])),
        "budget_factor": float(rng.choice([1.0, 1.0, 0.0, 0.1, 10.0, 1000.0])),
    }


def build(case):
    """-> (project, progset or None, instructions or None)"""
    import atomica as at

    root = repo_root()
    P = at.Project(framework=os.path.join(root, case["framework"]), databook=os.path.join(root, case["databook"]), do_run=False)
    start = float(P.settings.sim_start)
    P.settings.update_time_vector(end=start + case["steps"] * case["dt"], dt=case["dt"])
    rng = np.random.default_rng(case["pseed"])
    ps = P.parsets[0]
    fwpars = set(P.framework.pars.index)
    mode = case["mode"]
    if mode != "none":
        for par in ps.all_pars():
            if par.name not in fwpars and mode != "mild":
                continue  # hostile factors on initial sizes only produce refused initialisations
            for pop in par.pops:
                if rng.random() < case["p_perturb"]:
                    if mode == "mild":
                        f = float(rng.uniform(0.5, 2.0)) if par.name in fwpars else float(rng.uniform(0.9, 1.1))
                    elif mode == "hostile":
                        f = float(10 ** rng.uniform(-3, 3))
                    else:
                        f = 0.0 if rng.random() < 0.5 else float(rng.uniform(0.5, 2.0))
                    par.y_factor[pop] = f
    progset = instr = None
    if case["progbook"]:
        progset = P.load_progbook(os.path.join(root, case["progbook"]))
        ystart = start + case["prog_start_step"] * case["dt"]
        alloc = None
        if case["budget_factor"] != 1.0:
            alloc = {k: float(v[0]) * case["budget_factor"] for k, v in progset.get_alloc(np.array([ystart])).items()}
        coverage = {name: float(rng.uniform(0, 1)) for name, prog in progset.programs.items() if not prog.target_comps}  # such programmes need an explicit coverage
        instr = at.ProgramInstructions(start_year=ystart, alloc=alloc, coverage=coverage or None)
    return P, progset, instr


def describe(case):
    return {k: case[k] for k in ("framework", "databook", "progbook", "dt", "steps", "mode", "budget_factor")}

"""Shard worker: runs the cases `shard, shard+n, ...` of one property and writes one JSON line per case."""

import faulthandler
import os
import signal
import sys
import time
import traceback
import warnings


class CaseTimeout(Exception):
    pass


def _alarm(signum, frame):
    raise CaseTimeout()


def setup_repo():
    repo = os.environ.get("ATOMICA_VERIF_REPO", "/repo")
    sys.dont_write_bytecode = True
    if repo not in sys.path:
        sys.path.insert(0, repo)
    warnings.filterwarnings("ignore")
    import atomica

    assert os.path.abspath(atomica.__file__).startswith(os.path.abspath(repo) + os.sep), "atomica imported from %s, expected %s" % (atomica.__file__, repo)
    import logging

    atomica.logger.setLevel(logging.CRITICAL)
    return atomica


def run_one(mod, case, case_id, timeout):
    from av.core import fingerprint

    t0 = time.time()
    rec = {"case_id": case_id, "case": case, "fingerprint": fingerprint(case), "records": [], "stats": {}, "nontrivial": False}
    signal.signal(signal.SIGALRM, _alarm)
    signal.alarm(int(timeout))
    try:
        out = mod.run_case(case)
        rec.update(out)
    except CaseTimeout:
        rec["inconclusive"] = "case watchdog (%ss) fired" % timeout
    except Exception as e:
        rec["error"] = "%s: %s" % (type(e).__name__, str(e)[:500])
        rec["traceback"] = traceback.format_exc()[-3000:]
    finally:
        signal.alarm(0)
    rec["wall_s"] = round(time.time() - t0, 3)
    if not rec.get("keep_case") and not any(r["verdict"] == "violated" for r in rec["records"]) and "error" not in rec:
        # keep the output small: the case can be regenerated from (tier, seed, index)
        if len(str(case)) > 400:
            rec["case"] = {"regenerate": case_id}
    return rec


def main():
    faulthandler.enable()
    from av.core import jdump, prop_module

    pid = sys.argv[1]
    setup_repo()
    mod = prop_module(pid)
    timeout = mod.META.get("case_timeout", 120)
    if sys.argv[2] == "--replay":
        import json

        with open(sys.argv[3]) as f:
            rp = json.load(f)
        out = sys.argv[4]
        case = rp["case"]
        if isinstance(case, dict) and set(case.keys()) == {"regenerate"}:
            tier, seed, idx = case["regenerate"].split(":")
            case = mod.make_case(tier, int(seed), int(idx))
        rec = run_one(mod, case, rp.get("case_id", "replay"), timeout * 5)
        rec["case"] = case
        with open(out, "w") as f:
            f.write(jdump(rec) + "\n")
        return 0

    tier, seed, shard, nshards, ncases, out = sys.argv[2], int(sys.argv[3]), int(sys.argv[4]), int(sys.argv[5]), int(sys.argv[6]), sys.argv[7]
    if hasattr(mod, "worker_init"):
        mod.worker_init(tier, seed)
    with open(out, "w") as f:
        for idx in range(shard, ncases, nshards):
            case = mod.make_case(tier, seed, idx)
            rec = run_one(mod, case, "%s:%d:%d" % (tier, seed, idx), timeout)
            f.write(jdump(rec) + "\n")
            f.flush()
    return 0


if __name__ == "__main__":
    sys.exit(main())

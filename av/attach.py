"""Class-level wrappers applied from the harness (no code in /repo): the real method body runs unchanged,
the wrapper observes state before / after.  Missing internals degrade gracefully (wrap() returns False)."""

import functools


class Attach:
    def __init__(self):
        self._undo = []
        self.calls = {}

    def wrap(self, cls, name, pre=None, post=None, on_exc=None):
        orig = cls.__dict__.get(name) if isinstance(cls, type) else getattr(cls, name, None)
        if orig is None:
            orig = getattr(cls, name, None)
            if orig is None:
                return False
        is_static = isinstance(orig, staticmethod)
        is_class = isinstance(orig, classmethod)
        fn = orig.__func__ if (is_static or is_class) else orig
        key = "%s.%s" % (getattr(cls, "__name__", str(cls)), name)
        calls = self.calls

        @functools.wraps(fn)
        def wrapper(*a, **k):
            calls[key] = calls.get(key, 0) + 1
            tok = pre(*a, **k) if pre else None
            try:
                out = fn(*a, **k)
            except BaseException as e:
                if on_exc:
                    on_exc(e, tok, *a, **k)
                raise
            if post:
                r = post(tok, out, *a, **k)
                if r is not None:
                    return r[0]
            return out

        new = staticmethod(wrapper) if is_static else (classmethod(wrapper) if is_class else wrapper)
        setattr(cls, name, new)
        self._undo.append((cls, name, orig))
        return True

    def detach(self):
        for cls, name, orig in reversed(self._undo):
            setattr(cls, name, orig)
        self._undo = []

    def __enter__(self):
        return self

    def __exit__(self, *a):
        self.detach()
        return False

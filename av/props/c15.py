"""C15 - optimization and calibration never make things worse and never leak side effects."""

import numpy as np

from av import attach, digest, gen, ref
from av.props import simprop

MANIFEST_ENTRY = {
    "category": "fault_enumeration",
    "technique": "fault injection at every evaluation (a harness-side failpoint on Model.process raises at the k-th simulation, for every k up to the number of evaluations of a reference run, once with an ordinary exception and once with KeyboardInterrupt) with structural snapshots of the caller's objects before/after; plus an independent re-evaluation of the objective, bounds and hard targets of normally completed runs; deterministic probe of every measurable class against an independent evaluation",
    "text": "Small budget-optimisation problems (1-4 spending adjustables with absolute or relative bounds, measurables over single years and ranges, with and without population selection, optional hard targets and total-spend constraint, iteration budgets 0/1/5/20, random optimiser seeds) and calibration problems (1-3 y-factors) on generated and library models are solved with the default ASD method. Completed runs: the objective of the returned instructions / parameter set, re-evaluated from a fresh run_sim as the documented sum of the requested outputs over years and populations (flows annualised, spending from get_alloc), is no worse than the starting point's and matches the value the optimiser recorded; adjusted values lie in their bounds; hard targets met at the start are met at the end. In every run - completed, out of budget, or killed at the k-th evaluation for every k = 1..N - the caller's parameter set, program set, instructions, data and project settings (start, end, dt, time vector length) are structurally unchanged. A deterministic measurable probe (no optimisation) evaluates Maximize / Minimize / AtMost / AtLeast / IncreaseBy / DecreaseBy measurables for {all, first, last, all-listed} populations and {year, range} with thresholds either side of the independently computed value; generated hard targets are population-selected and tight half of the time. A third of the budget problems adjust two years on an allocation that differs between them, and the optimizer's starting allocation and kept total are compared with the caller's instructions; a third of the calibrations start from an already calibrated parameter set (population and all-population factors != 1) and the first objective evaluation, hooked in the real code, must be at the caller's factors. A third of the optimisations use an Optimization object that has already been used from another allocation. Total-spend constraints carry budget factors; a quarter of the problems have an objective that spending cannot move, so that the optimizer accepts no step and must return its constrained starting point. The measurable probe covers absolute IncreaseBy / DecreaseBy targets. Degenerate calibration requests (no measurables) must work on copies too. The probe includes generic weighted measurables (weights 0, 2.5, -1).",
    "note": "sciris' asd is called with die=True, so injected faults propagate; a procedure that absorbs a fault and finishes is judged like a normal completion. N is measured by a fault-free reference run with the same optimiser seed.",
}

META = {
    "level": "fault_enumeration",
    "rule": "cases = (model, optimisation or calibration problem, iteration budget, optimiser seed); for each, a reference run counts N simulations and then every crash point k = 1..N x {Exception, KeyboardInterrupt} is executed; non-trivial = the optimiser accepted at least one step (the returned point differs from the starting point) or N >= 3 crash points were enumerated; distinct = case fingerprints",
    "deciding_counters": ["reference_runs_completed", "crash_points_enumerated", "snapshots_compared", "objectives_reevaluated"],
    "assumptions": ["the starting point is the evaluation at the initial adjustable values after constraints have been applied (what optimize() itself evaluates first)"],
    "case_timeout": 900,
    "shard_timeout": {"quick": 2400, "thorough": 14000},
}

N = {"quick": 56, "thorough": 1200}
LIB = ["sir", "tb_simple", "udt"]


class InjectedFault(Exception):
    pass


def count(tier, seed):
    return N[tier]


def make_case(tier, seed, index):
    rng = gen.rng_for(seed, 15, index)
    kind = "calibration" if index % 3 == 2 else "optimization"
    maxiters = int(rng.choice([1, 2, 5, 20] if tier == "thorough" else [1, 2, 3, 5, 8]))  # (an iteration budget of 0 makes sciris.asd itself fail with IndexError)
    if kind == "optimization" and index % 7 == 0:
        return {"kind": kind, "model": "library", "name": LIB[(index // 7) % len(LIB)], "maxiters": maxiters, "asd_seed": int(rng.integers(0, 10000)), "u": [float(x) for x in rng.random(8)]}
    pf = {"p_targetable": 0.8, "n_pops": (1, 2), "steps": (4, 10), "dts": [1.0, 0.5, 0.25], "value_classes": ["mild"], "p_timed": 0.2, "n_junctions": (0, 1), "n_ord": (2, 4), "p_offgrid_end": 0.0, "p_yfactor": 0.0}
    for _ in range(20):
        spec = gen.gen_spec(rng, pf)
        ps = gen.gen_progspec(rng, spec, n_progs=(2, 4))
        if ps is not None or kind == "calibration":
            break
    if kind == "calibration":
        ords = [c["name"] for c in spec["comps"] if c["kind"] == "ord"]
        years = spec["years"]
        for c in ords:
            for pop in spec["pops"]:
                ys = sorted(float(y) for y in rng.choice(years, size=min(len(years), 3), replace=False))
                base = gen.sample_popsize(rng, "mild") + 1.0
                spec["values"][c][pop] = {"t": ys, "v": [base * float(rng.uniform(0.7, 1.3)) for _ in ys]}
    return {"kind": kind, "model": "generated", "spec": spec, "progspec": ps, "maxiters": maxiters, "asd_seed": int(rng.integers(0, 10000)), "u": [float(x) for x in rng.random(8)]}


# ---------------------------------------------------------------------------------------------
def independent_objective(result, measurables, baselines):
    """Documented objective: weight x sum of the requested output over the requested years and populations
    (flows annualised; spending from the allocation); hard targets give inf when violated."""
    from atomica.model import Link

    m = result.model
    t = np.asarray(m.t)
    total = 0.0
    for spec_m, base in zip(measurables, baselines):
        tt = spec_m["t"]
        filt = (t == tt[0]) if len(tt) == 1 else ((t >= tt[0]) & (t < tt[1]))
        name = spec_m["name"]
        if name in m.progset.programs:
            val = float(np.sum(m.progset.get_alloc(t, m.program_instructions)[name][filt]))
        else:
            val = 0.0
            for pop in m.pops:
                if spec_m.get("pops") and pop.name not in spec_m["pops"]:
                    continue
                try:
                    vs = pop.get_variable(name)
                except Exception:
                    continue
                for v in vs:
                    arr = np.asarray(v.vals, dtype=float)[filt]
                    val += float(np.sum(arr / v.dt)) if isinstance(v, Link) else float(np.sum(arr))
        k = spec_m["type"]
        if k == "min":
            total += val
        elif k == "max":
            total -= val
        elif k == "atmost":
            total += np.inf if val > spec_m["threshold"] else 0.0
        elif k == "atleast":
            total += np.inf if val < spec_m["threshold"] else 0.0
    return total


def raw_value(result, spec_m):
    from atomica.model import Link

    m = result.model
    t = np.asarray(m.t)
    tt = spec_m["t"]
    filt = (t == tt[0]) if len(tt) == 1 else ((t >= tt[0]) & (t < tt[1]))
    val = 0.0
    for pop in m.pops:
        if spec_m.get("pops") and pop.name not in spec_m["pops"]:
            continue
        try:
            vs = pop.get_variable(spec_m["name"])
        except Exception:
            continue
        for v in vs:
            arr = np.asarray(v.vals, dtype=float)[filt]
            val += float(np.sum(arr / v.dt)) if isinstance(v, Link) else float(np.sum(arr))
    return val


def snapshot_all(P, parset, pset, instr):
    s = P.settings
    return {
        "parset": digest.snapshot(parset),
        "progset": digest.snapshot(pset),
        "instructions": digest.snapshot(instr),
        "data": digest.snapshot(P.data),
        "settings": (repr(float(s.sim_start)), repr(float(s.sim_end)), repr(float(s.sim_dt)), len(s.tvec)),
    }


def compare_snaps(R, before, after, label):
    for k in before:
        R.count("snapshots_compared")
        if before[k] != after[k]:
            diff = digest.first_difference(before[k], after[k]) if k != "settings" else "%s -> %s" % (before[k], after[k])
            R.bad("caller-objects-unchanged", "C15:caller-object-modified[%s,%s]" % (k, label), {"difference": diff})
        else:
            R.ok("caller-objects-unchanged")


def build_problem(case):
    import atomica as at
    import atomica.optimization as OP

    u = case["u"]
    if case["model"] == "library":
        name = case["name"]
        P = at.Project(framework=at.LIBRARY_PATH / ("%s_framework.xlsx" % name), databook=at.LIBRARY_PATH / ("%s_databook.xlsx" % name), do_run=False)
        P.settings.update_time_vector(end=P.settings.sim_start + 6, dt=0.5)
        pset = P.load_progbook(at.LIBRARY_PATH / ("%s_progbook.xlsx" % name))
        prognames = list(pset.programs.keys())
        comps = [c for c in P.framework.comps.index if P.framework.comps.at[c, "is source"] != "y" and P.framework.comps.at[c, "is sink"] != "y" and P.framework.comps.at[c, "is junction"] != "y"]
        pops = list(P.data.pops.keys())
    else:
        spec, ps = case["spec"], case["progspec"]
        P = gen.build_project(spec)
        pset = gen.build_progset(ps, P.framework, P.data) if ps is not None else None
        prognames = [p["name"] for p in ps["programs"]] if ps is not None else []
        comps = [c["name"] for c in spec["comps"] if c["kind"] == "ord"]
        pops = list(spec["pops"])
    t = P.settings.tvec
    return P, pset, prognames, comps, pops, t


def run_optimization(case, R):
    import atomica as at
    import atomica.model as M
    import atomica.optimization as OP
    import sciris as sc

    u = case["u"]
    P, pset, prognames, comps, pops, t = build_problem(case)
    parset = P.parsets[0]
    start = float(t[0])
    adj_year = float(t[max(1, len(t) // 3)])
    adj_years = [adj_year]
    multi = (u[0] * 1000) % 1 < 0.35 and len(t) >= 6
    if multi:
        # the same programmes adjusted in two years, starting from an allocation that differs between those years
        adj_years = [adj_year, float(t[max(2, (2 * len(t)) // 3)])]
        base_alloc = pset.get_alloc(np.array([start]), at.ProgramInstructions(start_year=start))
        alloc = {}
        for j, pn in enumerate(prognames):
            b = float(base_alloc[pn][0])
            alloc[pn] = at.TimeSeries([start, adj_years[0], adj_years[1]], [b, b * (1.0 + 0.5 * ((j + 1) % 3)), b * (3.0 - 0.7 * (j % 3))])
        instr = at.ProgramInstructions(start_year=start, alloc=alloc)
        R.count("multi_year_adjustment_problems")
    else:
        instr = at.ProgramInstructions(start_year=start, alloc=pset)
    n_adj = max(1, min(len(prognames), 1 + int(u[0] * 4)))
    adjustments = []
    adj_specs = []
    tarr = adj_years if multi else adj_year
    for i, pn in enumerate(prognames[:n_adj]):
        if (u[1] * 10 + i) % 2 < 1:
            lo_r, hi_r = [(0.5, 2.0), (0.9, 1.5), (0.8, 3.0)][(int(u[1] * 100) + i) % 3]  # (tight relative limits make the rescaling to the total run into them)
            adjustments.append(OP.SpendingAdjustment(pn, tarr, "rel", lo_r, hi_r))
            adj_specs.append((pn, "rel", lo_r, hi_r))
        else:
            adjustments.append(OP.SpendingAdjustment(pn, tarr, "abs", 0.0, 1e7))
            adj_specs.append((pn, "abs", 0.0, 1e7))
    # measurables
    y0 = float(t[len(t) // 2])
    y1 = float(t[-1])
    mspecs = []
    target = comps[int(u[2] * len(comps)) % len(comps)]
    if case["model"] == "generated" and u[2] * 7 % 1 < 0.4:
        # a flow selector: objective values of flows are annualised
        fl = ["%s:%s" % (a, b) for a, b, pn in case["spec"]["trans"] if a in comps and (b in comps or b.startswith("dead"))]
        if fl:
            target = fl[int(u[2] * 13) % len(fl)]
    mtype = "max" if u[3] < 0.5 else "min"
    tt = [y1] if u[4] < 0.5 else [y0, y1]
    sel = [pops[0]] if (u[5] < 0.4) else None
    mspecs.append({"type": mtype, "name": target, "t": tt, "pops": sel})
    if u[6] < 0.3 and prognames:
        mspecs.append({"type": "min", "name": prognames[0], "t": [adj_year], "pops": None})
    use_constraint = u[7] < 0.6
    flat = int(u[6] * 1e4) % 4 == 0
    if flat:
        # an objective that spending cannot move (a compartment at the first time point): the optimizer accepts no step, and
        # what it returns is its starting point - the caller's allocation with the constraints applied - not something else
        mspecs = [{"type": mtype, "name": comps[0], "t": [start], "pops": None}]
        use_constraint = True
        R.count("problems_with_an_objective_that_spending_cannot_move")
    # a hard target that the starting point meets
    base_res = P.run_sim(parset, progset=pset, progset_instructions=instr)
    if u[6] > 0.6:
        other = comps[(int(u[2] * len(comps)) + 1) % len(comps)]
        # ... for all populations or (in models with several) for the first one only; generous, or tight enough that a step of
        # the optimizer can violate it (always on the feasible side of the starting value)
        hsel = [pops[0]] if (len(pops) >= 2 and (u[6] * 10) % 1 < 0.6) else None
        tight = (u[6] * 100) % 1 < 0.5
        hs = {"name": other, "t": [y1], "pops": hsel}
        v = raw_value(base_res, hs)
        if u[6] > 0.8:
            mspecs.append({"type": "atmost", "name": other, "t": [y1], "pops": hsel, "threshold": (v * 1.002 + 1e-6) if tight else (v * 1.2 + 1.0)})
        else:
            mspecs.append({"type": "atleast", "name": other, "t": [y1], "pops": hsel, "threshold": (v * 0.998 - 1e-6) if tight else (v * 0.8 - 1.0)})

    # ---- every measurable class evaluates exactly the requested output over the requested years and populations ------------
    # (deterministic probe on the finished baseline run: no optimisation involved)
    bm = base_res.model
    for probe_name in ([target] + [comps[0]])[:2]:
        for psel in [None, [pops[0]], [pops[-1]], list(pops)]:
            for tsel in ([y1], [y0, y1]):
                ms = {"name": probe_name, "t": tsel, "pops": psel}
                try:
                    v = raw_value(base_res, ms)
                except Exception:
                    continue
                if not np.isfinite(v):
                    continue
                tt_ = tsel[0] if len(tsel) == 1 else tsel
                thr_lo, thr_hi = v - max(1e-6, 1e-3 * abs(v)), v + max(1e-6, 1e-3 * abs(v))
                probes = [
                    ("Maximize", lambda: OP.MaximizeMeasurable(probe_name, tt_, pop_names=psel), -v),
                    ("Minimize", lambda: OP.MinimizeMeasurable(probe_name, tt_, pop_names=psel), v),
                    ("AtMost[met]", lambda: OP.AtMostMeasurable(probe_name, tt_, thr_hi, pop_names=psel), 0.0),
                    ("AtMost[violated]", lambda: OP.AtMostMeasurable(probe_name, tt_, thr_lo, pop_names=psel), np.inf),
                    ("AtLeast[met]", lambda: OP.AtLeastMeasurable(probe_name, tt_, thr_lo, pop_names=psel), 0.0),
                    ("AtLeast[violated]", lambda: OP.AtLeastMeasurable(probe_name, tt_, thr_hi, pop_names=psel), np.inf),
                ]
                d_abs = max(1e-6, 1e-3 * abs(v))
                probes += [
                    ("Weighted[0]", lambda: OP.Measurable(probe_name, tt_, weight=0.0, pop_names=psel), 0.0),
                    ("Weighted[2.5]", lambda: OP.Measurable(probe_name, tt_, weight=2.5, pop_names=psel), 2.5 * v),
                    ("Weighted[-1]", lambda: OP.Measurable(probe_name, tt_, weight=-1, pop_names=psel), -v),
                ]
                probes += [
                    ("IncreaseBy-abs[met]", lambda: OP.IncreaseByMeasurable(probe_name, tt_, 0.0, pop_names=psel, target_type="abs"), 0.0),
                    ("IncreaseBy-abs[violated]", lambda: OP.IncreaseByMeasurable(probe_name, tt_, d_abs, pop_names=psel, target_type="abs"), np.inf),
                    ("DecreaseBy-abs[met]", lambda: OP.DecreaseByMeasurable(probe_name, tt_, 0.0, pop_names=psel, target_type="abs"), 0.0),
                    ("DecreaseBy-abs[violated]", lambda: OP.DecreaseByMeasurable(probe_name, tt_, d_abs, pop_names=psel, target_type="abs"), np.inf),
                ]
                if v > 0:
                    probes += [
                        ("IncreaseBy[met]", lambda: OP.IncreaseByMeasurable(probe_name, tt_, 0.0, pop_names=psel), 0.0),
                        ("IncreaseBy[violated]", lambda: OP.IncreaseByMeasurable(probe_name, tt_, 0.001, pop_names=psel), np.inf),
                        ("DecreaseBy[met]", lambda: OP.DecreaseByMeasurable(probe_name, tt_, 0.0, pop_names=psel), 0.0),
                        ("DecreaseBy[violated]", lambda: OP.DecreaseByMeasurable(probe_name, tt_, 0.001, pop_names=psel), np.inf),
                    ]
                for label, mk, expected in probes:
                    try:
                        mo = mk()
                        got = float(mo.eval(bm, mo.get_baseline(bm)))
                    except Exception as e:
                        R.count("measurable_probe_not_applicable[%s,%s]" % (label.split("[")[0], type(e).__name__))
                        continue
                    R.count("measurable_probes")
                    same = (got == expected) or (np.isfinite(expected) and abs(got - expected) <= 1e-9 * max(1.0, abs(expected)))
                    if not same:
                        psk = "all" if psel is None else ("subset" if len(psel) < len(pops) else "all-listed")
                        R.bad("objective=documented-sum", "C15:measurable-evaluates-something-else[%s,pops=%s,%s]" % (label, psk, "year" if len(tsel) == 1 else "range"), {"measurable": label, "output": probe_name, "pops": psel, "t": tsel, "got": got, "expected": expected, "value_over_requested_pops": v})
                    else:
                        R.ok("objective=documented-sum")

    def make_measurables():
        out = []
        for m in mspecs:
            tt_ = m["t"][0] if len(m["t"]) == 1 else m["t"]
            if m["type"] == "max":
                out.append(OP.MaximizeMeasurable(m["name"], tt_, pop_names=m["pops"]))
            elif m["type"] == "min":
                out.append(OP.MinimizeMeasurable(m["name"], tt_, pop_names=m["pops"]))
            elif m["type"] == "atmost":
                out.append(OP.AtMostMeasurable(m["name"], tt_, m["threshold"], pop_names=m["pops"]))
            else:
                out.append(OP.AtLeastMeasurable(m["name"], tt_, m["threshold"], pop_names=m["pops"]))
        return out

    # the total to be kept is the caller's total times an optional budget factor
    bf = [1.0, 1.0, 1.5, 0.7][int(u[7] * 1e4) % 4] if use_constraint else 1.0
    if flat:
        bf = [1.5, 0.7][int(u[7] * 1e4) % 2]

    def make_opt():
        return OP.Optimization(adjustments=sc.dcp(adjustments), measurables=make_measurables(), constraints=[OP.TotalSpendConstraint(budget_factor=bf)] if use_constraint else None, maxiters=case["maxiters"], maxtime=60)

    evals = []
    nproc = {"n": 0, "fail_at": None, "exc": None}

    def pre_process(model):
        nproc["n"] += 1
        if nproc["fail_at"] is not None and nproc["n"] == nproc["fail_at"]:
            raise nproc["exc"]("injected fault at simulation %d" % nproc["n"])

    def post_obj(tok, out, x, *a, **k):
        evals.append((np.array(x, dtype=float, copy=True), float(out)))

    sample = {"kind": "optimization", "model": case.get("name", "generated"), "adjustables": adj_specs, "measurables": mspecs, "total_spend_constraint": use_constraint, "maxiters": case["maxiters"]}
    with attach.Attach() as A:
        h1 = A.wrap(M.Model, "process", pre=pre_process)
        h2 = A.wrap(OP, "_objective_fcn", post=post_obj)
        # ---------------- reference run
        before = snapshot_all(P, parset, pset, instr)
        np.random.seed(case["asd_seed"])
        nproc.update({"n": 0, "fail_at": None})
        try:
            opt = make_opt()
            if (u[7] * 1000) % 1 < 0.35:
                # the same Optimization object has been used before, from another allocation (a what-if loop over budgets):
                # the second call must start from, and keep the total and the relative limits of, *its* caller's allocation
                other_alloc = {}
                base_alloc_ = pset.get_alloc(np.array([start] + adj_years), instr)
                for j, pn in enumerate(prognames):
                    f = [2.0, 0.5, 1.7, 0.3][j % 4]
                    other_alloc[pn] = at.TimeSeries([start] + adj_years, [float(v) * f for v in base_alloc_[pn]])
                try:
                    OP.optimize(P, opt, parset, pset, at.ProgramInstructions(start_year=start, alloc=other_alloc))
                    R.count("optimization_objects_used_a_second_time")
                except (OP.InvalidInitialConditions, OP.UnresolvableConstraint):
                    R.count("optimization_objects_used_a_second_time[first use refused]")
                del evals[:]
                np.random.seed(case["asd_seed"])
                nproc.update({"n": 0, "fail_at": None})
            out_instr = OP.optimize(P, opt, parset, pset, instr)
            completed = True
        except OP.InvalidInitialConditions:
            R.count("invalid_initial_conditions")
            completed = False
            out_instr = None
        except OP.UnresolvableConstraint:
            R.count("unresolvable_constraint")
            completed = False
            out_instr = None
        except Exception as e:
            pop_sel = any(m["pops"] for m in mspecs)
            R.bad("optimization-completes", "C15:optimization-fails[%s%s]" % (type(e).__name__, ",pop_names" if pop_sel else ""), {"error": str(e)[:300], "problem": sample})
            compare_snaps(R, before, snapshot_all(P, parset, pset, instr), "after-error")
            return {"records": R.records(), "stats": R.stats, "nontrivial": False, "sample": sample}
        after = snapshot_all(P, parset, pset, instr)
        compare_snaps(R, before, after, "completed" if completed else "refused")
        N_ref = nproc["n"]
        R.count("simulations_in_reference_runs", N_ref)
        moved = False
        if completed:
            R.count("reference_runs_completed")
            # independent re-evaluation: start = first evaluation of optimize (x0 after constraints), end = returned instructions
            opt2 = make_opt()
            x0, xmin, xmax = opt2.get_initialization(pset, sc.dcp(instr))
            hc = opt2.get_hard_constraints(x0, sc.dcp(instr))
            i_start = sc.dcp(instr)
            opt2.update_instructions(x0, i_start)
            opt2.constrain_instructions(i_start, hc)
            A.detach()  # plain runs from here on
            r_start = P.run_sim(parset, progset=pset, progset_instructions=i_start)
            r_end = P.run_sim(parset, progset=pset, progset_instructions=out_instr)
            base = [None] * len(mspecs)
            o_start = independent_objective(r_start, mspecs, base)
            o_end = independent_objective(r_end, mspecs, base)
            R.count("objectives_reevaluated", 2)
            if evals:
                rec0 = evals[0][1]
                if np.isfinite(rec0) and not abs(rec0 - o_start) <= 1e-9 * max(1.0, abs(o_start)):
                    R.bad("objective=documented-sum", "C15:recorded-objective-differs-from-documented-sum[%s]" % ("pop_names" if any(m["pops"] for m in mspecs) else "all-pops"), {"recorded": rec0, "independent": o_start, "measurables": mspecs})
                else:
                    R.ok("objective=documented-sum")
            tol = 1e-9 * max(1.0, abs(o_start))
            if not (o_end <= o_start + tol):
                R.bad("result-no-worse-than-start", "C15:objective-worse-than-start[maxiters=%d]" % case["maxiters"], {"start": o_start, "end": o_end, "problem": sample})
            else:
                R.ok("result-no-worse-than-start")
            moved = o_end < o_start - tol
            # bounds on the adjusted spending
            for ay in adj_years:
                for pn, lt, lo, hi in adj_specs:
                    v = float(pset.get_alloc(ay, out_instr)[pn][0])  # (the spending in force in that year under the returned instructions)
                    x0v = float(pset.get_alloc(ay, instr)[pn][0])  # the caller's spending in that year
                    lo_, hi_ = (lo, hi) if lt == "abs" else (x0v * lo, x0v * hi)
                    if v < lo_ - 1e-6 * max(1, abs(lo_)) or v > hi_ + 1e-6 * max(1, abs(hi_)):
                        R.bad("adjusted-values-within-bounds", "C15:adjusted-value-outside-bounds[%s]" % lt, {"program": pn, "year": ay, "value": v, "bounds": [lo_, hi_]})
                    else:
                        R.ok("adjusted-values-within-bounds")
                    # the optimizer starts from the caller's allocation (it lies within these bounds by construction)
                    vs = float(pset.get_alloc(ay, i_start)[pn][0])
                    if bf == 1.0:
                        if abs(vs - x0v) > 1e-6 * max(1.0, abs(x0v)):
                            R.bad("start=callers-instructions", "C15:optimizer-starts-from-another-allocation[%s]" % ("multi-year" if multi else "single-year"), {"program": pn, "year": ay, "callers": x0v, "optimizer_start": vs})
                        else:
                            R.ok("start=callers-instructions")
                if use_constraint:
                    tot0 = sum(float(pset.get_alloc(ay, instr)[pn][0]) for pn, *_ in adj_specs)  # the caller's total in that year
                    tot1 = sum(float(pset.get_alloc(ay, out_instr)[pn][0]) for pn, *_ in adj_specs)
                    if abs(tot0 * bf - tot1) > 1e-6 * max(1.0, abs(tot0 * bf)):
                        R.bad("total-spend-kept", "C15:total-spend-changed", {"year": ay, "callers_total": tot0, "budget_factor": bf, "end": tot1})
                    else:
                        R.ok("total-spend-kept")
            # hard targets met at the start are met at the end
            for m in mspecs:
                if m["type"] in ("atmost", "atleast"):
                    vs, ve = raw_value(r_start, m), raw_value(r_end, m)
                    met_s = vs <= m["threshold"] if m["type"] == "atmost" else vs >= m["threshold"]
                    met_e = ve <= m["threshold"] if m["type"] == "atmost" else ve >= m["threshold"]
                    R.count("hard_targets_checked")
                    if met_s and not met_e:
                        R.bad("hard-targets-kept", "C15:hard-target-lost[%s]" % m["type"], {"start": vs, "end": ve, "threshold": m["threshold"]})
                    else:
                        R.ok("hard-targets-kept")
            # re-attach for the fault enumeration
            A.wrap(M.Model, "process", pre=pre_process)
        # ---------------- fault enumeration: crash at the k-th simulation, k = 1..N
        for exc in (InjectedFault, KeyboardInterrupt):
            for k in range(1, N_ref + 1):
                before = snapshot_all(P, parset, pset, instr)
                np.random.seed(case["asd_seed"])
                nproc.update({"n": 0, "fail_at": k, "exc": exc})
                outcome = "returned"
                try:
                    OP.optimize(P, make_opt(), parset, pset, instr)
                except KeyboardInterrupt:
                    outcome = "KeyboardInterrupt"
                except InjectedFault:
                    outcome = "InjectedFault"
                except Exception as e:
                    outcome = type(e).__name__
                finally:
                    nproc["fail_at"] = None
                R.count("crash_points_enumerated")
                R.count("crash_outcome[%s]" % outcome)
                compare_snaps(R, before, snapshot_all(P, parset, pset, instr), "fault@%s" % ("first" if k == 1 else ("last" if k == N_ref else "middle")))
    return {"records": R.records(), "stats": R.stats, "nontrivial": bool(moved or N_ref >= 3), "sample": sample}


def run_calibration(case, R):
    import atomica as at
    import atomica.calibration as C
    import atomica.model as M
    import sciris as sc

    u = case["u"]
    spec = case["spec"]
    P = gen.build_project(spec)
    parset = P.parsets[0]
    pops = spec["pops"]
    ords = [c["name"] for c in spec["comps"] if c["kind"] == "ord"]
    cands = [p["name"] for p in spec["pars"] if p["db"] and not p["timed"] and not p["function"]]
    if not cands:
        return {"records": [], "stats": {"no_adjustable": 1}, "nontrivial": False}
    n_adj = 1 + int(u[0] * 3)
    pars_to_adjust = []
    for i in range(n_adj):
        pn = cands[(int(u[1] * len(cands)) + i) % len(cands)]
        pop = pops[(int(u[2] * len(pops)) + i) % len(pops)] if u[3] < 0.8 else "all"
        if (pn, pop) not in [(a, b) for a, b, _, _ in pars_to_adjust]:
            pars_to_adjust.append((pn, pop, 0.1, 5.0))
    # the caller's parameter set is already calibrated (a second calibration, or one continued from a loaded one): the factors
    # that are adjusted do not start at 1, and "no worse than the starting point" refers to *these* values
    if (u[3] * 10) % 1 < 0.6:
        for j, (pn, pop, lo_, hi_) in enumerate(pars_to_adjust):
            f0 = [0.53, 1.7, 0.8, 2.4][(int(u[1] * 97) + j) % 4]
            if pop == "all":
                parset.pars[pn].meta_y_factor = f0
            else:
                parset.pars[pn].y_factor[pop] = f0
        R.count("calibrations_from_a_calibrated_parset")
    outputs = [(ords[int(u[4] * len(ords)) % len(ords)], pops[0], 1.0, "fractional")]
    if u[5] < 0.5 and len(ords) > 1:
        outputs.append((ords[(int(u[4] * len(ords)) + 1) % len(ords)], None, 1.0, "fractional"))
    # an end year beyond the data so that calibrate() shortens and must restore it
    P.settings.update_time_vector(end=float(max(spec["years"])) + 3.0 + (0.3 if u[6] < 0.5 else 0.0))
    nproc = {"n": 0, "fail_at": None, "exc": None}

    def pre_process(model):
        nproc["n"] += 1
        if nproc["fail_at"] is not None and nproc["n"] == nproc["fail_at"]:
            raise nproc["exc"]("injected fault at simulation %d" % nproc["n"])

    sample = {"kind": "calibration", "pars_to_adjust": pars_to_adjust, "outputs": outputs, "maxiters": case["maxiters"], "sim_end": float(P.settings.sim_end), "dt": float(P.settings.sim_dt)}

    def objective_of(ps):
        o2 = []
        for o in outputs:
            if o[1] is None:
                o2 += [(o[0], p, o[2], o[3]) for p in pops]
            else:
                o2.append(o)
        p2 = []
        for a in pars_to_adjust:
            p2.append(a)
        x = []
        for pn, pop, _, _ in pars_to_adjust:
            x.append(ps.pars[pn].meta_y_factor if pop == "all" else ps.pars[pn].y_factor[pop])
        end0 = P.settings.sim_end
        P.settings.sim_end = min(P.data.tvec[-1], end0)
        try:
            return C._calculate_objective(x, pars_to_adjust=p2, output_quantities=o2, parset=sc.dcp(ps), project=P)
        finally:
            P.settings._sim_end = end0

    first_x = []

    def pre_objective(y_factors, *a, **k):
        if not first_x:
            first_x.append([float(v) for v in np.ravel(y_factors)])

    with attach.Attach() as A:
        A.wrap(M.Model, "process", pre=pre_process)
        hooked_obj = A.wrap(C, "_calculate_objective", pre=pre_objective)
        before = snapshot_all(P, parset, None, None)
        np.random.seed(case["asd_seed"])
        try:
            new = C.calibrate(P, parset, list(pars_to_adjust), list(outputs), max_time=30, maxiters=case["maxiters"])
            completed = True
        except Exception as e:
            R.bad("calibration-completes", "C15:calibration-fails[%s]" % type(e).__name__, {"error": str(e)[:300], "problem": sample})
            compare_snaps(R, before, snapshot_all(P, parset, None, None), "after-error")
            return {"records": R.records(), "stats": R.stats, "nontrivial": False, "sample": sample}
        compare_snaps(R, before, snapshot_all(P, parset, None, None), "completed")
        # the degenerate requests work on copies too: nothing to compare with (no measurables) still returns an independent
        # parameter set and leaves the caller's set and project alone, through the function and through Project.calibrate
        for how in ("function", "project"):
            before_d = snapshot_all(P, parset, None, None)
            try:
                if how == "function":
                    new_d = C.calibrate(P, parset, list(pars_to_adjust), [], max_time=5, maxiters=1)
                else:
                    new_d = P.calibrate(parset=parset, adjustables=list(pars_to_adjust), measurables=[], max_time=5, maxiters=1, save_to_project=False)
            except Exception as e_:
                R.count("degenerate_calibration_refused[%s]" % type(e_).__name__)
                compare_snaps(R, before_d, snapshot_all(P, parset, None, None), "degenerate-refused")
                continue
            R.count("degenerate_calibrations_completed")
            compare_snaps(R, before_d, snapshot_all(P, parset, None, None), "degenerate")
            if new_d is parset or any(new_d is x for x in P.parsets.values()):
                R.bad("works-on-copies", "C15:calibration-returns-the-callers-own-parset[no-measurables,%s]" % how, {"returned_is_callers": new_d is parset})
            else:
                R.ok("works-on-copies")
        N_ref = nproc["n"]
        R.count("reference_runs_completed")
        R.count("simulations_in_reference_runs", N_ref)
        nproc["fail_at"] = None
        # the search starts from the caller's calibration factors
        if hooked_obj and first_x:
            x_caller = [float(parset.pars[pn].meta_y_factor if pop == "all" else parset.pars[pn].y_factor[pop]) for pn, pop, _, _ in pars_to_adjust]
            R.count("calibration_starting_points_checked")
            if len(first_x[0]) != len(x_caller) or any(abs(a_ - b_) > 1e-12 * max(1.0, abs(b_)) for a_, b_ in zip(first_x[0], x_caller)):
                R.bad("start=callers-parset", "C15:calibration-starts-from-other-values[%s]" % ("meta" if any(pop == "all" for _, pop, _, _ in pars_to_adjust) else "population"), {"first_evaluation": first_x[0], "callers_factors": x_caller, "adjustables": pars_to_adjust})
            else:
                R.ok("start=callers-parset")
        o_start = objective_of(parset)
        o_end = objective_of(new)
        R.count("objectives_reevaluated", 2)
        moved = False
        if np.isfinite(o_start):
            if not (o_end <= o_start + 1e-9 * max(1.0, abs(o_start))):
                R.bad("result-no-worse-than-start", "C15:calibration-objective-worse-than-start", {"start": o_start, "end": o_end, "problem": sample})
            else:
                R.ok("result-no-worse-than-start")
                moved = o_end < o_start
        for pn, pop, lo, hi in pars_to_adjust:
            v = new.pars[pn].meta_y_factor if pop == "all" else new.pars[pn].y_factor[pop]
            if v < lo - 1e-12 or v > hi + 1e-12:
                R.bad("adjusted-values-within-bounds", "C15:calibrated-y-factor-outside-bounds", {"par": pn, "pop": pop, "value": float(v), "bounds": [lo, hi]})
            else:
                R.ok("adjusted-values-within-bounds")
        # only the requested y-factors differ between the caller's parset and the returned one
        a = {k: dict(v) for k, v in parset.y_factors.items()}
        b = {k: dict(v) for k, v in new.y_factors.items()}
        changed = [(k, kk) for k in a for kk in a[k] if a[k][kk] != b.get(k, {}).get(kk)]
        allowed = {((pn, None), ("meta_y_factor" if pop == "all" else pop)) for pn, pop, _, _ in pars_to_adjust}
        extra = [c for c in changed if c not in allowed]
        if extra:
            R.bad("only-requested-factors-change", "C15:calibration-changes-other-y-factors", {"changed": extra[:5]})
        else:
            R.ok("only-requested-factors-change")
        for exc in (InjectedFault, KeyboardInterrupt):
            for k in range(1, N_ref + 1):
                before = snapshot_all(P, parset, None, None)
                np.random.seed(case["asd_seed"])
                nproc.update({"n": 0, "fail_at": k, "exc": exc})
                outcome = "returned"
                try:
                    C.calibrate(P, parset, list(pars_to_adjust), list(outputs), max_time=30, maxiters=case["maxiters"])
                except KeyboardInterrupt:
                    outcome = "KeyboardInterrupt"
                except InjectedFault:
                    outcome = "InjectedFault"
                except Exception as e:
                    outcome = type(e).__name__
                finally:
                    nproc["fail_at"] = None
                R.count("crash_points_enumerated")
                R.count("crash_outcome[%s]" % outcome)
                compare_snaps(R, before, snapshot_all(P, parset, None, None), "fault@%s" % ("first" if k == 1 else ("last" if k == N_ref else "middle")))
    return {"records": R.records(), "stats": R.stats, "nontrivial": bool(moved or N_ref >= 3), "sample": sample}


def run_case(case):
    R = ref.Recs()
    if case["kind"] == "optimization":
        if case["model"] == "generated" and case["progspec"] is None:
            return {"records": [], "stats": {"no_progspec": 1}, "nontrivial": False}
        return run_optimization(case, R)
    return run_calibration(case, R)

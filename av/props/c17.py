"""C17 - sampled runs are independent draws, serial or parallel, and do not alter their sources."""

import json
import os
import subprocess
import sys
import tempfile
import time

import numpy as np

from av import digest, gen, ref

MANIFEST_ENTRY = {
    "category": "exploration",
    "technique": "client-boundary history checker over sampled runs (pairwise distinctness of the perturbation each returned Result carries) under varied schedules: serial and parallel execution with 1-16 workers, several sample counts, several prior states of the global generator and injected per-process delays; every parallel call runs in its own watchdog-guarded subprocess and reports which process produced which sample; per-quantity perturbation monitor (parameters, transfers, interactions, spending, outcomes); redraw monitor for refused initialisations",
    "text": "For models with uncertain parameters and program sets (including explicit interaction outcomes) Project.run_sampled_sims and Ensemble.run_sims are called serially and in parallel with num_workers in {1,2,3,4,8,16}, n_samples in 2..32, the numpy global generator left untouched or pre-seeded, and per-process sleeps injected (from the harness) at the start of each sampled run so that the pool hands samples to workers differently. The perturbation fingerprint of every returned sample (sampled parameter values and sampled program set carried by the Result) must be pairwise distinct within a call; the evidence lists the sample-to-process assignments that were actually observed. Sources are snapshotted before and after (unchanged), a sampled run with all uncertainties zero or None must equal the unsampled run, and every generated program book must be sampleable. Every uncertain quantity is also checked on its own: its sampled value must differ between any two samples of a call in which it is visible unclipped (not hidden by a limit, a zero calibration factor or a program overwrite). A third of the cases have uncertain initial sizes, so that some draws are refused and redrawn: a parallel call that gives up redrawing while serial draws of the same model are refused at most 70% of the time is a violation. Series holding a constant next to year values, transfers and interactions are among the uncertain quantities. Unit costs, capacity constraints and saturations carry uncertainties of up to 1.5 x their value, and no sample may carry the entered value of an uncertain programme quantity; a fixed fifth of the cases has all uncertainties zero or absent, with explicit interaction outcomes and non-zero baselines. Three quarters of the zero-uncertainty cases sample a parameter set that carries a saved state.",
    "note": "Pool hangs or child crashes are inconclusive, never violations. 'Any assignment of samples to workers' is sampled, not enumerated: the assignments seen are in the evidence.",
}

META = {
    "level": "exploration",
    "rule": "cases = (model with uncertainties, schedule) where schedule = (serial | pool | ensemble, workers, n_samples, generator pre-seed, delay pattern); non-trivial = a call with >= 2 samples and positive uncertainty; distinct = case fingerprints",
    "deciding_counters": ["calls_with_positive_uncertainty", "sample_pairs_compared", "parallel_calls_completed"],
    "assumptions": ["two samples coincide only if their perturbation fingerprints (all sampled data parameters at the first time point, sampled program spending/unit costs/outcomes) are bit-identical"],
    "case_timeout": 900,
    "shard_timeout": {"quick": 2400, "thorough": 14000},
    "max_error_rate": 0.3,
    "jobs": 8,  # every parallel case forks up to 16 workers of its own
}

N = {"quick": 40, "thorough": 900}
WORKERS = [1, 2, 3, 4, 8, 16]


def count(tier, seed):
    return N[tier]


def make_case(tier, seed, index):
    rng = gen.rng_for(seed, 17, index)
    pf = {"p_targetable": 0.7, "n_pops": (1, 2), "p_transfer": 0.7, "p_interaction": 0.5, "p_aggregation": 0.4, "steps": (2, 6), "p_timed": 0.2, "n_junctions": (0, 1), "value_classes": ["mild"], "n_ord": (2, 4), "p_function": 0.3}
    for _ in range(10):
        spec = gen.gen_spec(rng, pf)
        ps = gen.gen_progspec(rng, spec)
        if ps is not None:
            break
    zero = bool(index % 5 == 4)  # every fifth case: all uncertainties zero or absent (a deterministic share, so that the quick tier always has several)
    if zero and ps is not None:
        # a zero uncertainty must leave explicit interaction outcomes alone as well: make sure there are some, next to non-zero baselines
        for c in ps["covouts"]:
            names = sorted(c["progs"])
            if c["imp_interaction"] is None and len(names) >= 2 and rng.random() < 0.7:
                c["imp_interaction"] = "%s=%r" % ("+".join(names[: int(rng.integers(2, len(names) + 1))]), float(rng.uniform(0, 1)))
            if c["baseline"] == 0 and rng.random() < 0.7:
                c["baseline"] = float(rng.uniform(0.05, 0.5))
    # uncertainties
    for name, popvals in spec["values"].items():
        if any(p["name"] == name and p.get("timed") for p in spec["pars"]):
            continue
        is_par = any(p["name"] == name for p in spec["pars"])
        for pop, v in popvals.items():
            if zero:
                v["sigma"] = 0.0 if rng.random() < 0.5 else None
            elif is_par and rng.random() < 0.7:
                v["sigma"] = float(rng.choice([0.05, 0.2]))
    # uncertain initial sizes: some draws cannot be initialised and are redrawn (the retry must be a *new* draw, serial or parallel)
    init_sigma = bool(not zero and rng.random() < 0.3)
    if init_sigma:
        for c in spec["comps"]:
            if c["kind"] == "ord" and c["name"] in spec["values"]:
                for pop, v in spec["values"][c["name"]].items():
                    base = v.get("a") if "a" in v else (v["v"][0] if v.get("v") else 0.0)
                    v["sigma"] = 0.45 * abs(float(base or 0.0)) + 0.2
    # transfers and interactions are sampled too
    for t in spec.get("transfers", []):
        for e in t["entries"]:
            if zero:
                e[3]["sigma"] = 0.0 if rng.random() < 0.5 else None
            elif rng.random() < 0.6:
                e[3]["sigma"] = float(rng.choice([0.05, 0.2]))
    for it in spec.get("interactions", []):
        for e in it.get("entries", []):
            if zero:
                e[2]["sigma"] = 0.0 if rng.random() < 0.5 else None
            elif rng.random() < 0.6:
                e[2]["sigma"] = float(rng.choice([0.05, 0.2]))
    if ps is not None:
        for p in ps["programs"]:
            p["spend_sigma"] = (0.0 if rng.random() < 0.5 else None) if zero else float(rng.choice([1.0, 50.0]))
            # unit cost, capacity constraint and saturation are sampled too; an uncertainty that is large relative to the value
            # is legal (a draw is a draw, whatever its sign)
            for q_ in ("unit_cost", "capacity_constraint", "saturation"):
                series = p.get(q_)
                if q_ == "capacity_constraint" and series is not None:
                    series = series["series"]
                if series is None:
                    continue
                vmin = min([abs(v) for v in ([series["a"]] if "a" in series else series["v"])] + [1e9])
                if zero:
                    p[q_ + "_sigma"] = 0.0 if rng.random() < 0.5 else None
                elif rng.random() < 0.6:
                    p[q_ + "_sigma"] = float(vmin * float(rng.choice([0.05, 0.3, 1.0, 1.5]))) or 0.01
        for c in ps["covouts"]:
            c["sigma"] = (0.0 if rng.random() < 0.7 else None) if zero else float(rng.choice([0.01, 0.05]))
    mode = str(rng.choice(["serial", "pool", "pool", "pool", "ensemble"]))
    return {
        "kind": "sampling",
        "spec": spec,
        "progspec": ps if (rng.random() < 0.7 or zero) else None,
        "zero_uncertainty": zero,
        "mode": mode,
        "workers": int(WORKERS[int(rng.integers(0, len(WORKERS)))]),
        "n_samples": int(rng.integers(2, 33)) if tier == "thorough" or rng.random() < 0.3 else int(rng.integers(2, 13)),
        "preseed": None if rng.random() < 0.4 else int(rng.integers(0, 10000)),
        "delays": str(rng.choice(["none", "by-pid", "first-slow", "random"])),
        "init_sigma": init_sigma,
    }


def build(case):
    spec, ps = case["spec"], case["progspec"]
    P = gen.build_project(spec)
    pset = instr = None
    if ps is not None:
        pset = gen.build_progset(ps, P.framework, P.data)
        for p in ps["programs"]:
            pset.programs[p["name"]].spend_data.sigma = p.get("spend_sigma")
            for q_ in ("unit_cost", "capacity_constraint", "saturation"):
                if (q_ + "_sigma") in p:
                    getattr(pset.programs[p["name"]], q_).sigma = p[q_ + "_sigma"]
        for c in ps["covouts"]:
            pset.covouts[(c["par"], c["pop"])].sigma = c.get("sigma")
        instr = gen.build_instructions(ps, {"start": spec["settings"]["start"], "stop": None, "alloc": {}, "capacity": {}, "coverage": {}})
    return P, pset, instr


def fingerprint_of(result, spec):
    """What was perturbed in this sample, as carried by the returned Result: "<hash of everything>/<number of uncertain
    quantities visible unclipped>|<json {quantity: hash of its sampled value}>" (the last part only for uncertain quantities
    whose value is visible unclipped - two draws clipped to the same limit look identical)."""
    parts = []
    uq = {}
    datapars = {p["name"] for p in spec["pars"] if p["db"] and not p.get("function")}
    for pop in result.model.pops:
        for par in pop.pars:
            if par.name in datapars:
                v0 = np.asarray(par.vals, dtype=float)[:1]
                parts.append((pop.name, par.name, v0.tobytes().hex()))
                sig = spec["values"].get(par.name, {}).get(pop.name, {}).get("sigma") or 0
                lim = par.limits if par.limits is not None else ()
                yf = spec.get("yfactors", {}).get(par.name, {}).get(pop.name, 1.0)
                targeted = result.model.progset is not None and (par.name, pop.name) in result.model.progset.covouts  # the recorded value is then the programme's
                if sig > 0 and v0.size and yf != 0 and not targeted and np.isfinite(v0[0]) and not any(float(v0[0]) == float(l) for l in lim if l is not None):
                    uq["parameter:%s:%s" % (par.name, pop.name)] = v0.tobytes().hex()
    # transfers (model parameters <transfer>_<from>_to_<to>) and interactions (weights [from, to, t])
    for t in spec.get("transfers", []):
        for a, b, units, v in t["entries"]:
            for pop in result.model.pops:
                if pop.name != a:
                    continue
                for par in pop.pars:
                    if par.name == "%s_%s_to_%s" % (t["name"], a, b):
                        v0 = np.asarray(par.vals, dtype=float)[:1]
                        parts.append(("transfer", par.name, v0.tobytes().hex()))
                        lim = par.limits if par.limits is not None else (0.0,)
                        if (v.get("sigma") or 0) > 0 and not any(float(v0[0]) == float(l) for l in lim if l is not None):
                            uq["transfer:%s" % par.name] = v0.tobytes().hex()
    for it in spec.get("interactions", []):
        w = result.model.interactions.get(it["name"]) if hasattr(result.model, "interactions") else None
        if w is not None:
            h = np.asarray(w, dtype=float)[:, :, 0].tobytes().hex()
            parts.append(("interaction", it["name"], h))
            if any((e[2].get("sigma") or 0) > 0 and (e[2].get("a") or 0) > 0 for e in it.get("entries", [])):
                uq["interaction:%s" % it["name"]] = digest._h(h.encode())
    ps = result.model.progset
    if ps is not None:
        prts, puq = progset_quantities(ps)
        parts += prts
        uq.update(puq)
    return "%s/%d|%s" % (digest._h(repr(parts).encode()), len(uq), json.dumps(uq, sort_keys=True))


def progset_quantities(ps):
    """(all programme-book quantities, {uncertain quantity: hash of its value}) of a (sampled or source) program set."""
    parts, uq = [], {}
    for name, prog in ps.programs.items():
        for label, ts in (("spend", prog.spend_data), ("unitcost", prog.unit_cost), ("capacity", prog.capacity_constraint), ("saturation", prog.saturation)):
            r = repr((ts.assumption, list(ts.vals)))
            parts.append((label, name, r))
            if (ts.sigma or 0) > 0 and ts.has_data:
                uq["%s:%s" % (label, name)] = digest._h(r.encode())
    for key, co in ps.covouts.items():
        r = repr((sorted(co.progs.items()), co.imp_interaction))
        parts.append(("covout", str(key), r))
        if (co.sigma or 0) > 0:
            uq["outcome:%s" % str(key)] = digest._h(r.encode())
    return parts, uq


_CASE = {}


def ens_mapping(results, **kw):
    """Module-level (importable) mapping function for Ensemble.run_sims: reduces a sample to a PlotData and tags it
    with the perturbation fingerprint and the producing process."""
    import atomica as at

    spec = _CASE["spec"]
    pd_ = at.PlotData(results, outputs=[c["name"] for c in spec["comps"] if c["kind"] == "ord"][:2])
    pd_._av_fp = fingerprint_of(results[0], spec)
    pd_._av_pid = os.getpid()
    return pd_


def child_main(path):
    """Runs one (possibly parallel) sampling call and prints the per-sample fingerprints and producing pids."""
    from av.worker import setup_repo

    setup_repo()
    import atomica as at
    import atomica.project as PJ

    with open(path) as f:
        case = json.load(f)
    P, pset, instr = build(case)
    delays = case["delays"]
    parent = os.getpid()

    orig = PJ._run_sampled_sim

    def wrapped(*a, **k):
        pid = os.getpid()
        if delays == "by-pid":
            time.sleep(0.02 * (pid % 5))
        elif delays == "first-slow" and pid != parent:
            marker = os.path.join(os.path.dirname(path), "first_%d" % parent)
            try:
                fd = os.open(marker, os.O_CREAT | os.O_EXCL)
                os.close(fd)
                time.sleep(0.3)
            except FileExistsError:
                pass
        elif delays == "random":
            time.sleep(0.05 * ((pid * 7919 + int(time.time() * 1000)) % 4))
        out = orig(*a, **k)
        for r in out:
            r._av_pid = pid
        return out

    wrapped.__module__ = orig.__module__
    wrapped.__qualname__ = orig.__qualname__
    wrapped.__name__ = orig.__name__
    PJ._run_sampled_sim = wrapped

    if case["preseed"] is not None:
        np.random.seed(case["preseed"])
    out = {"samples": [], "mode": case["mode"]}
    try:
        _child_sample(case, P, pset, instr, out, at)
    except Exception as e:
        out["failed"] = "%s: %s" % (type(e).__name__, str(e)[:200])
    print("SAMPLES=" + json.dumps(out))


def _child_sample(case, P, pset, instr, out, at):
    if case["mode"] == "pool":
        res = P.run_sampled_sims(P.parsets[0], progset=pset, progset_instructions=instr, n_samples=case["n_samples"], parallel=True, num_workers=case["workers"])
        for rl in res:
            out["samples"].append({"fp": fingerprint_of(rl[0], case["spec"]), "pid": getattr(rl[0], "_av_pid", None)})
    elif case["mode"] == "ensemble":
        _CASE["spec"] = case["spec"]  # inherited by the forked workers
        ens = at.Ensemble(mapping_function=ens_mapping)
        ens.run_sims(P, P.parsets[0], progset=pset, progset_instructions=instr, n_samples=case["n_samples"], parallel=True)
        for s in ens.samples:
            out["samples"].append({"fp": getattr(s, "_av_fp", None), "pid": getattr(s, "_av_pid", None)})


def run_case(case):
    import atomica as at
    import sciris as sc

    R = ref.Recs()
    spec = case["spec"]
    P, pset, instr = build(case)
    parset = P.parsets[0]
    positive = not case["zero_uncertainty"]
    if positive:
        # the fingerprint sees data parameters and programme data: is any of them given a positive uncertainty?
        datapars = {p["name"] for p in spec["pars"] if p["db"] and not p.get("function")}
        any_par = any((v.get("sigma") or 0) > 0 for name, popvals in spec["values"].items() if name in datapars for v in popvals.values())
        any_par = any_par or any((e[3].get("sigma") or 0) > 0 for t in spec.get("transfers", []) for e in t["entries"]) or any((e[2].get("sigma") or 0) > 0 and (e[2].get("a") or 0) > 0 for it in spec.get("interactions", []) for e in it.get("entries", []))
        any_prog = pset is not None and (any((prog.spend_data.sigma or 0) > 0 for prog in pset.programs.values()) or any((co.sigma or 0) > 0 for co in pset.covouts.values()))
        if not (any_par or any_prog):
            R.count("model_without_any_uncertain_quantity")
            return {"records": R.records(), "stats": R.stats, "nontrivial": False}
    R.count("mode[%s]" % case["mode"])
    # ---- every program book can be sampled; sources unchanged --------------------------------------------------
    before = {"parset": digest.snapshot(parset), "progset": digest.snapshot(pset)}
    try:
        sp = parset.sample()
        spp = pset.sample() if pset is not None else None
        R.ok("sampleable")
    except Exception as e:
        R.bad("sampleable", "C17:sample-raises[%s,%s]" % ("progset" if "ovout" in repr(e) or "interactions" in str(e) else "parset-or-progset", type(e).__name__), {"error": str(e)[:300], "interactions": [c["imp_interaction"] for c in (case["progspec"] or {"covouts": []})["covouts"] if c["imp_interaction"]][:3]})
        return {"records": R.records(), "stats": R.stats, "nontrivial": False}
    after = {"parset": digest.snapshot(parset), "progset": digest.snapshot(pset)}
    for k in before:
        if before[k] != after[k]:
            R.bad("sources-unchanged", "C17:sample-modifies-source[%s]" % k, {"difference": digest.first_difference(before[k], after[k])})
        else:
            R.ok("sources-unchanged")
    # ---- zero / absent uncertainty: sampled run equals unsampled run --------------------------------------------
    if case["zero_uncertainty"]:
        try:
            if case.get("n_samples", 0) % 4 != 1:
                # the parameter set carries a saved state (a restart in the middle of the original run): a sampled copy carries it too
                r_first = P.run_sim(parset, progset=pset, progset_instructions=instr)
                y_mid = float(r_first.t[len(r_first.t) // 2])
                parset.set_initialization(r_first, y_mid)
                P.settings.update_time_vector(start=y_mid)
                R.count("zero_uncertainty_calls_on_a_parset_with_a_saved_state")
            r0 = P.run_sim(parset, progset=pset, progset_instructions=instr)
            rs = P.run_sampled_sims(parset, progset=pset, progset_instructions=instr, n_samples=2)
            R.count("zero_uncertainty_calls")
            for rl in rs:
                d = digest.compare_arrays(digest.result_arrays(r0), digest.result_arrays(rl[0]))
                if d:
                    R.bad("zero-uncertainty=unsampled", "C17:zero-uncertainty-sample-differs-from-unsampled[%s]" % str(d[0][0][0]), {"first_differences": [list(map(str, x)) for x in d[:3]]})
                else:
                    R.ok("zero-uncertainty=unsampled")
        except Exception as e:
            if type(e).__name__ == "BadInitialization":
                R.count("baseline_bad_initialization")
            else:
                raise
        return {"records": R.records(), "stats": R.stats, "nontrivial": False, "sample": {"mode": "zero-uncertainty", "n": 2}}

    # ---- independent draws ------------------------------------------------------------------------------------------------
    samples = None
    if case["mode"] == "serial":
        if case["preseed"] is not None:
            np.random.seed(case["preseed"])
        b2 = {"parset": digest.snapshot(parset), "progset": digest.snapshot(pset)}
        try:
            rs = P.run_sampled_sims(parset, progset=pset, progset_instructions=instr, n_samples=case["n_samples"])
        except Exception as e:
            if "Failed simulation after" in str(e):
                R.count("sampling_exhausted_attempts")
                return {"records": R.records(), "stats": R.stats, "nontrivial": False}
            raise
        a2 = {"parset": digest.snapshot(parset), "progset": digest.snapshot(pset)}
        for k in b2:
            if b2[k] != a2[k]:
                R.bad("sources-unchanged", "C17:run_sampled_sims-modifies-source[%s]" % k, {"difference": digest.first_difference(b2[k], a2[k])})
            else:
                R.ok("sources-unchanged")
        samples = [{"fp": fingerprint_of(rl[0], spec), "pid": os.getpid()} for rl in rs]
    else:
        td = tempfile.mkdtemp(prefix="av_c17_")
        path = os.path.join(td, "case.json")
        with open(path, "w") as f:
            json.dump(case, f, default=str)
        root = os.path.dirname(os.path.dirname(os.path.dirname(os.path.abspath(__file__))))
        try:
            p = subprocess.run([sys.executable, "-c", "import sys; sys.path.insert(0, %r); from av.props.c17 import child_main; child_main(%r)" % (root, path)], capture_output=True, text=True, timeout=150)
            line = [l for l in p.stdout.splitlines() if l.startswith("SAMPLES=")]
            if not line:
                R.inc("independent-draws")
                R.count("parallel_child_failed")
                tail = (p.stderr or "")[-400:]
                return {"records": R.records(), "stats": R.stats, "nontrivial": False, "inconclusive": "parallel child produced no result: " + tail}
            payload = json.loads(line[0][len("SAMPLES=") :])
            if payload.get("failed"):
                R.count("parallel_call_raised[%s]" % payload["failed"].split(":")[0])
                if "Failed simulation after" in payload["failed"]:
                    # the parallel call gave up redrawing.  Legitimate only if draws that cannot be initialised are so frequent
                    # that 50 independent redraws can all fail; measured on serial draws of the same model
                    bad = ok_ = 0
                    st = np.random.get_state()
                    np.random.seed(12345)
                    for _ in range(40):
                        try:
                            P.run_sim(parset.sample(), progset=pset.sample() if pset is not None else None, progset_instructions=instr)
                            ok_ += 1
                        except Exception as e:
                            if type(e).__name__ == "BadInitialization":
                                bad += 1
                            else:
                                raise
                    np.random.set_state(st)
                    R.count("retry_exhaustion_judged")
                    if bad / 40.0 <= 0.7:
                        R.bad("redraw-after-refused-initialisation", "C17:parallel-sampling-exhausts-retries[%s]" % case["mode"], {"error": payload["failed"], "fraction_of_serial_draws_refused": bad / 40.0, "n_samples": case["n_samples"], "workers": case["workers"]})
                    else:
                        R.count("retry_exhaustion_plausible")
                    return {"records": R.records(), "stats": R.stats, "nontrivial": False}
                R.inc("independent-draws")
                return {"records": R.records(), "stats": R.stats, "nontrivial": False, "inconclusive": "parallel call raised: " + payload["failed"]}
            samples = payload["samples"]
            R.count("parallel_calls_completed")
            if case.get("init_sigma"):
                R.ok("redraw-after-refused-initialisation")
        except subprocess.TimeoutExpired:
            R.inc("independent-draws")
            R.count("parallel_child_timeout")
            return {"records": R.records(), "stats": R.stats, "nontrivial": False, "inconclusive": "parallel child timed out (pool hang?)"}
        finally:
            import shutil

            shutil.rmtree(td, ignore_errors=True)
    R.count("calls_with_positive_uncertainty")
    uqs = []
    for s_ in samples:
        head, _, tail = str(s_["fp"]).partition("|")
        s_["fp"] = head
        try:
            uqs.append(json.loads(tail) if tail else {})
        except Exception:
            uqs.append({})
    # a positive uncertainty means a non-zero perturbation: no sample may carry the entered value of an uncertain programme quantity
    if pset is not None:
        src = progset_quantities(pset)[1]
        for key in sorted(src):
            n_same = sum(1 for u_ in uqs if u_.get(key) == src[key])
            R.count("uncertain_quantities_compared_with_the_entered_value")
            if n_same:
                R.bad("every-uncertain-quantity-perturbed", "C17:sample-carries-the-entered-value-of-an-uncertain-quantity[%s,%s]" % (key.split(":")[0], case["mode"]), {"quantity": key, "samples_with_entered_value": n_same, "samples": len(uqs)})
    # every uncertain quantity on its own: its value must differ between any two samples in which it is visible unclipped
    if len(uqs) >= 2:
        for key in sorted(set().union(*[set(u) for u in uqs])):
            vals_ = [u[key] for u in uqs if key in u]
            if len(vals_) < 2:
                continue
            R.count("uncertain_quantities_compared")
            kind_ = key.split(":")[0]
            if len(set(vals_)) == 1:
                R.bad("every-uncertain-quantity-perturbed", "C17:uncertain-quantity-not-perturbed[%s,%s]" % (kind_, case["mode"]), {"quantity": key, "samples": len(vals_)})
            elif len(set(vals_)) < len(vals_):
                R.bad("every-uncertain-quantity-perturbed", "C17:uncertain-quantity-shares-a-draw[%s,%s]" % (kind_, case["mode"]), {"quantity": key, "samples": len(vals_), "distinct": len(set(vals_))})
            else:
                R.ok("every-uncertain-quantity-perturbed")
    fps = [s["fp"] for s in samples]
    n = len(fps)
    R.count("sample_pairs_compared", n * (n - 1) // 2)
    pids = [s["pid"] for s in samples]
    assignment = {}
    for i, pid in enumerate(pids):
        assignment.setdefault(pid, []).append(i)
    sched = sorted(len(v) for v in assignment.values())
    if n != case["n_samples"]:
        R.bad("all-samples-returned", "C17:wrong-number-of-samples[%s]" % case["mode"], {"expected": case["n_samples"], "got": n})
    dup = n - len(set(fps))
    if dup:
        groups = {}
        for i, fp in enumerate(fps):
            groups.setdefault(fp, []).append(i)
        same = [g for g in groups.values() if len(g) > 1]
        clipped = [g for g in same if str(fps[g[0]]).endswith("/0")]
        same = [g for g in same if g not in clipped]
        if clipped:
            R.count("duplicates_with_every_uncertain_value_at_a_limit", len(clipped))
    if dup and same:
        across = any(len({pids[i] for i in g}) > 1 for g in same)
        R.bad("independent-draws", "C17:duplicate-samples[%s,%s]" % (case["mode"], "across-workers" if across else "within-worker"), {"n_samples": n, "distinct": len(set(fps)), "workers": case["workers"], "preseed": case["preseed"], "duplicate_groups": same[:5], "samples_per_process": sched})
    else:
        R.ok("independent-draws")
    sample = {"mode": case["mode"], "workers": case["workers"], "n_samples": n, "preseed": case["preseed"], "delays": case["delays"], "samples_per_process": sched, "programs": pset is not None}
    return {"records": R.records(), "stats": R.stats, "nontrivial": n >= 2 and positive, "sample": sample, "schedule": "%s:%s" % (case["mode"], sched)}


def extra_evidence(cases):
    scheds = {}
    for c in cases:
        s = c.get("schedule")
        if s:
            scheds[s] = scheds.get(s, 0) + 1
    return {"distinct_sample_to_process_assignments_seen": len(scheds), "assignments_seen": dict(sorted(scheds.items(), key=lambda kv: -kv[1])[:40])}

"""C02 - stocks and flows stay non-negative, finite and never over-drawn; common scaling factor."""

import numpy as np

from av import ref, simcase
from av.props import simprop

HOSTILE = ["rates_high", "durations_tiny", "numbers_huge", "empty", "zero", "mixed_scale", "negative_functions", "binding_limits", "rates_high", "numbers_huge", "negative_functions", "mild"]

MANIFEST_ENTRY = {
    "category": "exploration",
    "technique": "offline sign/finiteness/over-draw checker plus reference recomputation of requested fractions and the common scaling factor from recorded parameter values, generated and shipped (corpus) models, negative data and negative function values",
    "text": "All stocks, flows and per-bin contents of each run are checked finite and >= 0, total outflow <= stock, negative parameter => zero flow, and every parameter-driven flow is recomputed from the recorded parameter value by the documented conversion with one common factor per compartment (per bin in timed compartments); hostile value classes make the rescaling branch fire in most cases (counted). Every 8th case is a model shipped with the repository (49 library / fixture framework-databook(-program book) combinations and 18 fixture frameworks with a generated databook: several population types, interactions, derivative parameters, hand-made junction and duration-group layouts) run under perturbation: other step sizes and horizons, calibration factors from mild to hostile, program books switched on at arbitrary years with scaled budgets. About a third of the generated runs carry a generated program set (program-driven rates, numbers and junction proportions, boundary outcomes of exactly 0). Negative values reach transition parameters through functions and through databook entries. Negative values also reach junction proportions (a negative proportion sends nobody that way and does not enter the normalisation).",
    "note": "The recomputation uses recorded parameter values (their correctness is C06's job) and the internal per-bin arrays of timed compartments where the property speaks about bins.",
}

META = {
    "level": "exploration",
    "rule": "cases = random ModelSpecs as in C01 with hostile value classes dominating (rates >> 1 per step, durations << dt, number flows >> source population, empty compartments, all-zero, 1e-9..1e9 people, functions returning negative values); non-trivial = the run exercised at least one of: outflow rescaling (requested fractions summing above 1), a negative parameter value, an empty source compartment of a number transition; distinct = spec fingerprints",
    "deciding_counters": ["rescaled_steps", "ratio_checks_rescaled"],
    "assumptions": ["requested fractions are recomputed from the recorded parameter values by the documented conversion (the same oracle as C03)", "per-bin ratio preservation in timed compartments uses the internal per-bin arrays when present", "ill-posed junction runs and non-finite function values are outside the domain (counted)"],
    "case_timeout": 120,
}

make_case = simprop.make_case_for(2, {"value_classes": HOSTILE})


def count(tier, seed):
    return simprop.SIZES[tier]


def run_case(case):
    R = ref.Recs()
    spec = case.get("spec")
    try:
        P, result, view = simcase.simulate_case(case, R)
    except simcase.Excluded as e:
        return {"records": R.records(), "stats": R.stats, "nontrivial": False, "excluded": e.reason}
    ref.check_nonneg_finite(view, R)
    ref.check_flows(view, R, prefix="C02", rtol=1e-8)
    if result.check_for_nans(verbose=False):
        R.bad("check_for_nans-agrees", "C02:check_for_nans-reports-nan", {})
    else:
        R.ok("check_for_nans-agrees")
    st = R.stats
    nontrivial = st.get("rescaled_steps", 0) > 0 or st.get("rescaled_steps_timed", 0) > 0 or st.get("negative_parameter_steps", 0) > 0
    for f in simprop.features(view):
        R.count("feature[%s]" % f)
    R.count("vclass[%s]" % (spec["meta"]["vclass"] if spec else "corpus:" + case["mode"]))
    return {"records": R.records(), "stats": R.stats, "nontrivial": bool(nontrivial), "sample": simprop.sample_of_case(case)}

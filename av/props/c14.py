"""C14 - constrained allocations meet the total and every bound, or are rejected."""

import numpy as np

from av import attach, ref

MANIFEST_ENTRY = {
    "category": "exploration",
    "technique": "runtime post-condition monitor on every real call of constrain_sum_bounded (direct and inside TotalSpendConstraint / SpendingPackageAdjustment workloads) plus read-back of ProgramInstructions.alloc after Optimization.constrain_instructions",
    "text": "Random proposal vectors (all-zero, single non-zero, already feasible, wildly infeasible), totals, and bound vectors (0, finite, infinite, equal lower and upper) for 1-10 programs are pushed through the real constrain_sum_bounded; every return is checked for |sum - s| <= 1e-6 s and every bound, a feasible input must come back unchanged, and any exception counts as the 'cannot be satisfied' signal. Optimization objects with plain, paired and package adjustments over several constrained years, budget factors, relative and absolute bounds are built on a real ProgramSet; impossible totals must raise UnresolvableConstraint from get_hard_constraints (and possible ones must not), and after constrain_instructions on random proposals the allocation is read back from the instructions: per constrained year the sum and every bound, package shares within min/max proportions and package totals within limits. Proposals include entries sitting exactly on their bounds (as optimizer-clipped proposals do) and sums that differ from the total by one rounding error. Adjustment years are given in any order, with one limit for all years or one per year, and the expected hard bounds are taken from what was handed to the constructors. Explicit totals come with budget factors. Explicit totals include exactly 0. In 40% of the problems the Optimization / adjustment objects have been used before from another allocation.",
    "note": "The silent bad return is the violation; raising is always acceptable. Progress (that feasible problems are eventually solved) is only claimed for inputs that are feasible after mere multiplicative rescaling.",
}

META = {
    "level": "exploration",
    "rule": "cases = batches: 'direct' (300 random calls of constrain_sum_bounded) and 'constraint' (25 random Optimization objects x 6 proposals); non-trivial = the projection actually moved the proposal (returned vector differs from the rescaled input) in some call of the batch; distinct = batch fingerprints",
    "deciding_counters": ["projection_calls_checked", "projection_moved_proposal", "constrained_years_read_back"],
    "assumptions": ["any raised exception is a signal that the proposal cannot be satisfied", "tolerances: total 1e-6 relative (as stated), bounds 1e-9 relative slack for rounding"],
    "case_timeout": 600,
}

N_DIRECT = {"quick": 40, "thorough": 1200}
N_CONS = {"quick": 40, "thorough": 1200}


def count(tier, seed):
    return N_DIRECT[tier] + N_CONS[tier]


def make_case(tier, seed, index):
    if index < N_DIRECT[tier]:
        return {"kind": "direct", "seed": [seed, 14, index], "n": 300}
    return {"kind": "constraint", "seed": [seed, 14, 100000 + index], "n": 25}


def post_check(R, x, s, lb, ub, y, origin):
    R.count("projection_calls_checked")
    x = np.asarray(x, dtype=float)
    y = np.asarray(y, dtype=float)
    lb = np.asarray(lb, dtype=float)
    ub = np.asarray(ub, dtype=float)
    wit = {"origin": origin, "x": x.tolist(), "s": float(s), "lb": lb.tolist(), "ub": ub.tolist(), "returned": y.tolist(), "returned_sum": float(np.sum(y))}
    if not np.all(np.isfinite(y)):
        R.bad("returned-finite", "C14:returned-nonfinite", wit)
        return False
    if abs(y.sum() - s) > 1e-6 * abs(s):
        R.bad("sum=total", "C14:sum-misses-total-silently[n=%d]" % len(x), wit)
        return False
    R.ok("sum=total")
    slack = 1e-9 * max(1.0, abs(s))
    if np.any(y < lb - slack) or np.any(y > ub + slack):
        R.bad("within-bounds", "C14:bound-violated-silently", wit)
        return False
    R.ok("within-bounds")
    feasible = abs(x.sum() - s) <= 1e-12 * max(1.0, abs(s)) and np.all(x >= lb) and np.all(x <= ub)
    if feasible:
        R.count("already_feasible_inputs")
        if np.any(np.abs(y - x) > 1e-9 * max(1.0, abs(s))):
            R.bad("feasible-unchanged", "C14:feasible-input-changed", wit)
            return False
        R.ok("feasible-unchanged")
    xs = x / (x.sum() or 1) * s
    if np.any(np.abs(y - xs) > 1e-9 * max(1.0, abs(s))):
        R.count("projection_moved_proposal")
    return True


def gen_direct(rng):
    n = int(rng.integers(1, 11))
    s = float(10 ** rng.uniform(-2, 8)) if rng.random() > 0.05 else 0.0
    u = rng.random()
    if u < 0.1:
        x = np.zeros(n)
    elif u < 0.2:
        x = np.zeros(n)
        x[int(rng.integers(0, n))] = float(10 ** rng.uniform(-2, 8))
    else:
        x = 10 ** rng.uniform(-3, 8, size=n) * (rng.random(n) > 0.15)
    lb = np.zeros(n)
    ub = np.full(n, np.inf)
    share = s / n if s > 0 else 1.0
    for i in range(n):
        v = rng.random()
        if v < 0.3:
            lb[i] = float(rng.uniform(0, 1.2)) * share
        if rng.random() < 0.4:
            ub[i] = lb[i] + float(rng.uniform(0, 3)) * share
        if rng.random() < 0.05:
            ub[i] = lb[i]
    mode = "random"
    if rng.random() < 0.2 and s > 0:
        # an input that is already feasible
        w = rng.dirichlet(np.ones(n))
        x = w * s
        lb = np.minimum(lb, x)
        ub = np.maximum(ub, x)
        mode = "feasible"
        if rng.random() < 0.5:  # entries sitting exactly on a bound, as proposals clipped by the optimizer do
            on = rng.random(n)
            lb = np.where(on < 0.3, x, lb)
            ub = np.where(on > 0.7, x, ub)
            mode = "feasible"
    elif rng.random() < 0.2 and s > 0:
        # feasible after multiplicative rescaling only
        w = rng.dirichlet(np.ones(n))
        lb = np.minimum(lb, w * s)
        ub = np.maximum(ub, w * s)
        if rng.random() < 0.5:
            on = rng.random(n)
            lb = np.where(on < 0.3, w * s, lb)
            ub = np.where(on > 0.7, w * s, ub)
        x = w * float(10 ** rng.uniform(-3, 9))
        mode = "rescale-feasible"
    return x, s, lb, ub, mode


def run_direct(case, R):
    from atomica.optimization import constrain_sum_bounded

    rng = np.random.default_rng(case["seed"])
    samples = []
    for i in range(case["n"]):
        x, s, lb, ub, mode = gen_direct(rng)
        R.count("mode[%s]" % mode)
        try:
            with np.errstate(all="ignore"):
                y = constrain_sum_bounded(x.copy(), s, lb.copy(), ub.copy())
        except BaseException as e:  # noqa - any exception is a signal
            if isinstance(e, (KeyboardInterrupt, SystemExit)):
                raise
            R.count("signalled[%s]" % type(e).__name__)
            if mode in ("feasible", "rescale-feasible"):
                R.bad("progress-on-rescale-feasible", "C14:signals-on-rescale-feasible-input[%s]" % type(e).__name__, {"x": x.tolist(), "s": s, "lb": lb.tolist(), "ub": ub.tolist(), "error": repr(e)[:200]})
            continue
        post_check(R, x, s, lb, ub, y, "direct:" + mode)
        if len(samples) < 3:
            samples.append({"x": x.tolist(), "s": s, "lb": lb.tolist(), "ub": ub.tolist(), "mode": mode})
    return {"records": R.records(), "stats": R.stats, "nontrivial": R.stats.get("projection_moved_proposal", 0) > 0, "sample": {"kind": "direct", "calls": samples}}


_BASE = {}


def base_project():
    if not _BASE:
        import atomica as at

        _BASE["P"] = at.Project(framework=at.LIBRARY_PATH / "sir_framework.xlsx", databook=at.LIBRARY_PATH / "sir_databook.xlsx", do_run=False)
    return _BASE["P"]


def run_constraint(case, R):
    import atomica as at
    import atomica.optimization as OP
    import sciris as sc

    rng = np.random.default_rng(case["seed"])
    P = base_project()
    samples = []

    def hook_post(tok, out, x, s, lb, ub):
        post_check(R, tok[0], s, lb, ub, out, "inside-workload")

    def hook_pre(x, s, lb, ub):
        return (np.array(x, dtype=float, copy=True),)

    with attach.Attach() as A:
        A.wrap(OP, "constrain_sum_bounded", pre=hook_pre, post=hook_post)
        for i in range(case["n"]):
            n = int(rng.integers(2, 9))
            names = ["prog%d" % k for k in range(n)]
            years = sorted(float(y) for y in rng.choice([2020.0, 2021.0, 2022.5, 2025.0], size=int(rng.integers(1, 4)), replace=False))
            pset = at.ProgramSet(framework=P.framework, data=P.data, tvec=np.arange(2015, 2031.0))
            alloc = {}
            for k in names:
                pset.add_program(k, k)
                ts = at.TimeSeries(units="$/year")
                for y in [2019.0] + years:
                    ts.insert(y, float(10 ** rng.uniform(1, 7)) * (rng.random() > 0.1))
                pset.programs[k].spend_data = ts.copy()
                alloc[k] = ts
            instr = at.ProgramInstructions(start_year=2019.0, alloc=alloc)
            adjustments = []
            stated = {}  # (program, year) -> (limit type, lower, upper) exactly as handed to the library
            free = list(names)
            packages = []
            # optional package (single year)
            if n >= 4 and rng.random() < 0.4:
                members = [free.pop() for _ in range(int(rng.integers(2, 4)))]
                ty = years[0]
                init = np.array([alloc[m].get(ty) for m in members])
                if init.sum() > 0:
                    props = init / init.sum()
                    minp = np.where(rng.random(len(members)) < 0.5, props * rng.uniform(0, 1, len(members)), 0.0)
                    maxp = np.where(rng.random(len(members)) < 0.5, np.minimum(1.0, props + rng.uniform(0, 1, len(members)) * (1 - props)), 1.0)
                    lo = init.sum() * float(rng.uniform(0.2, 1.0))
                    hi = init.sum() * float(rng.uniform(1.0, 3.0))
                    try:
                        adj = OP.SpendingPackageAdjustment("pkg%d" % i, ty, members, init, min_props=minp, max_props=maxp, min_total_spend=lo, max_total_spend=hi)
                        adjustments.append(adj)
                        packages.append(adj)
                    except AssertionError:
                        free += members
                else:
                    free += members
            # optional paired adjustment
            if len(free) >= 4 and len(years) >= 2 and rng.random() < 0.3:
                pair = [free.pop(), free.pop()]
                adjustments.append(OP.PairedLinearSpendingAdjustment(pair, [years[0], years[1]]))
            for k in free:
                if rng.random() < 0.85:
                    ty = [y for y in years if rng.random() < 0.8] or [years[0]]
                    lt = "rel" if rng.random() < 0.5 else "abs"
                    if lt == "rel":
                        lo = float(rng.choice([0.0, 0.5, 0.9, 1.0]))
                        hi = float(rng.choice([1.0, 1.5, 3.0, np.inf]))
                    else:
                        lo = float(rng.choice([0.0, 0.0, 10.0, 1e3]))
                        hi = float(rng.choice([np.inf, 1e5, 1e7, 1e9]))
                    # years in any order, limits as one number for all years or one per year (in the order of the years given)
                    if len(ty) >= 2 and rng.random() < 0.4:
                        ty = [float(y) for y in rng.permutation(ty)]
                    if len(ty) >= 2 and rng.random() < 0.4:
                        los = [float(rng.choice([0.0, 0.5, 0.9, 1.0])) if lt == "rel" else float(rng.choice([0.0, 0.0, 10.0, 1e3])) for _ in ty]
                        his = [float(rng.choice([1.0, 1.5, 3.0, np.inf])) if lt == "rel" else float(rng.choice([np.inf, 1e5, 1e7, 1e9])) for _ in ty]
                        adjustments.append(OP.SpendingAdjustment(k, ty, lt, los, his))
                        R.count("adjustments_with_per_year_limits")
                    else:
                        los, his = [lo] * len(ty), [hi] * len(ty)
                        adjustments.append(OP.SpendingAdjustment(k, ty, lt, lo, hi))
                    if list(ty) != sorted(ty):
                        R.count("adjustments_with_years_not_ascending")
                    for y_, lo_, hi_ in zip(ty, los, his):
                        stated[(k, float(y_))] = (lt, lo_, hi_)
            if not adjustments:
                continue
            mode = rng.random()
            if mode < 0.5:
                cons = OP.TotalSpendConstraint(budget_factor=float(rng.choice([1.0, 1.0, 0.5, 2.0, 0.01, 50.0])))
            elif mode < 0.8:
                ct = [y for y in years if rng.random() < 0.7] or [years[0]]
                cons = OP.TotalSpendConstraint(t=ct, budget_factor=[float(rng.choice([1.0, 0.5, 2.0])) for _ in ct] if rng.random() < 0.5 else 1.0)
            else:
                ct = [years[0]]
                cons = OP.TotalSpendConstraint(total_spend=[float(10 ** rng.uniform(2, 8)) if rng.random() > 0.15 else (0.0 if rng.random() < 0.5 else 0)], t=ct, budget_factor=float(rng.choice([1.0, 1.0, 0.5, 1.5, 2.0])))  # (the required total is total_spend x budget_factor)
            opt = OP.Optimization(adjustments=adjustments, measurables=[OP.MinimizeMeasurable("ch_prev", 2025)], constraints=[cons])
            if rng.random() < 0.4:
                # the same Optimization / adjustment objects have been used before, from another allocation (a loop over budget
                # levels): limits relative to the initial spend refer to the allocation of *this* use
                other = {}
                for j_, k_ in enumerate(names):
                    ts_ = at.TimeSeries(units="$/year")
                    for y_ in [2019.0] + years:
                        ts_.insert(y_, float(alloc[k_].get(y_)) * (2.0 if j_ % 2 == 0 else 0.5))
                    other[k_] = ts_
                instr_other = at.ProgramInstructions(start_year=2019.0, alloc=other)
                try:
                    x0_, _, _ = opt.get_initialization(pset, instr_other)
                    opt.get_hard_constraints(x0_, instr_other)
                except Exception:
                    pass
                R.count("optimizations_whose_objects_were_used_before_from_another_allocation")
            try:
                x0, xmin, xmax = opt.get_initialization(pset, instr)
            except OP.InvalidInitialConditions:
                R.count("invalid_initial_conditions")
                continue
            R.count("optimizations_built")
            # ---- impossible from the outset?
            try:
                hc = opt.get_hard_constraints(x0, instr)
                unresolvable = False
            except OP.UnresolvableConstraint:
                unresolvable = True
            except Exception as e:
                R.count("hard_constraint_other_error[%s]" % type(e).__name__)
                continue
            if unresolvable:
                R.count("unresolvable_reported")
                R.ok("impossible-reported-upfront")
                continue
            hcd = hc[0]
            # ---- independent expectation of constrained years, totals and bounds (from the inputs, not from hcd)
            instr0 = sc.dcp(instr)
            opt.update_instructions(x0, instr0)
            exp_progs, exp_bounds = {}, {}
            for adj in adjustments:
                if isinstance(adj, OP.SpendingPackageAdjustment):
                    if adj.adjust_total_spend:
                        exp_progs.setdefault(float(adj.t), set()).add(adj.name)
                        exp_bounds.setdefault(float(adj.t), {})[adj.name] = (adj.adjustables[-1].lower_bound, adj.adjustables[-1].upper_bound)
                elif isinstance(adj, OP.PairedLinearSpendingAdjustment):
                    for t in adj.t:
                        for pn in adj.prog_name:
                            exp_progs.setdefault(float(t), set()).add(pn)
                            exp_bounds.setdefault(float(t), {})[pn] = (0.0, np.inf)
                else:
                    for t in [y_ for (k_, y_) in stated if k_ == adj.prog_name]:
                        exp_progs.setdefault(float(t), set()).add(adj.prog_name)
                        base = float(instr0.alloc[adj.prog_name].get(t))
                        lt_, lo_, hi_ = stated[(adj.prog_name, float(t))]
                        lo = lo_ if lt_ == "abs" else base * lo_
                        hi = hi_ if lt_ == "abs" else base * hi_
                        exp_bounds.setdefault(float(t), {})[adj.prog_name] = (lo, hi)
            exp_total = {}
            for t, progs in exp_progs.items():
                if len(cons.t) and t not in [float(v) for v in cons.t]:
                    continue
                idx = [float(v) for v in cons.t].index(t) if len(cons.t) else None
                if len(cons.total_spend) and cons.total_spend[idx] is not None:
                    tot = float(cons.total_spend[idx])
                else:
                    tot = 0.0
                    for pn in progs:
                        if pn in instr0.alloc:
                            tot += float(instr0.alloc[pn].get(t))
                        else:
                            tot += float(opt.get_adjustment(pn).initial_spends.sum())
                bf = float(cons.budget_factor[0]) if len(cons.budget_factor) == 1 else float(cons.budget_factor[idx])
                exp_total[t] = tot * bf
            got_total = {float(t): float(np.ravel(v)[0]) for t, v in hcd["initial_total_spend"].items()}
            if set(got_total) != set(exp_total) or any(abs(got_total[t] - exp_total[t]) > 1e-9 * max(1.0, abs(exp_total[t])) for t in exp_total):
                R.bad("hard-constraint=stated-total", "C14:hard-constraint-total-differs-from-specification", {"expected": exp_total, "got": got_total, "budget_factor": cons.budget_factor.tolist(), "t": [float(v) for v in cons.t]})
                continue
            R.ok("hard-constraint=stated-total")
            badb = None
            for t in exp_total:
                for pn in exp_progs[t]:
                    g = hcd["bounds"][t].get(pn) if t in hcd["bounds"] else None
                    e = exp_bounds[t][pn]
                    if g is None or not (np.isclose(g[0], e[0], rtol=1e-12, atol=0, equal_nan=True) or g[0] == e[0]) or not (np.isclose(g[1], e[1], rtol=1e-12, atol=0, equal_nan=True) or g[1] == e[1]):
                        badb = {"t": t, "program": pn, "expected": list(e), "got": None if g is None else list(g)}
            if badb:
                R.bad("hard-constraint=stated-bounds", "C14:hard-constraint-bounds-differ-from-specification", badb)
                continue
            R.ok("hard-constraint=stated-bounds")
            # independent feasibility from the returned bounds: sum(lb) <= total <= sum(ub) for each constrained year
            for t, tot in hcd["initial_total_spend"].items():
                tot = float(np.ravel(tot)[0])
                lo = sum(hcd["bounds"][t][p][0] for p in hcd["programs"][t])
                hi = sum(hcd["bounds"][t][p][1] for p in hcd["programs"][t])
                if lo > tot * (1 + 1e-12) or hi < tot * (1 - 1e-12):
                    R.bad("impossible-reported-upfront", "C14:impossible-total-not-reported", {"t": t, "total": tot, "sum_lb": lo, "sum_ub": hi})
                else:
                    R.ok("impossible-reported-upfront")
            # ---- random proposals
            for j in range(6):
                lo_ = np.where(np.isfinite(xmin), xmin, 0.0)
                hi_ = np.where(np.isfinite(xmax), xmax, np.maximum(x0 * 5, 1.0))
                u = rng.random(len(x0))
                x = lo_ + u * (hi_ - lo_)
                if j == 0:
                    x = x0.copy()
                if j == 1:
                    x = lo_.copy()
                instr2 = sc.dcp(instr)
                try:
                    opt.update_instructions(x, instr2)
                    opt.constrain_instructions(instr2, hc)
                except BaseException as e:  # noqa
                    if isinstance(e, (KeyboardInterrupt, SystemExit)):
                        raise
                    R.count("proposal_signalled[%s]" % type(e).__name__)
                    continue
                for t, tot in hcd["initial_total_spend"].items():
                    tot = float(np.ravel(tot)[0])
                    R.count("constrained_years_read_back")
                    got = {}
                    for p in hcd["programs"][t]:
                        if p in instr2.alloc:
                            got[p] = float(instr2.alloc[p].get(t))
                        else:
                            got[p] = float(opt.get_adjustment(p).get_total_spend(instr2))
                    ssum = sum(got.values())
                    wit = {"t": t, "total": tot, "allocation": got, "bounds": {p: list(hcd["bounds"][t][p]) for p in got}, "proposal": x.tolist()}
                    if abs(ssum - tot) > 1e-6 * abs(tot):
                        R.bad("instructions-sum=total", "C14:instructions-miss-total", wit)
                        continue
                    R.ok("instructions-sum=total")
                    slack = 1e-9 * max(1.0, abs(tot))
                    if any(v < hcd["bounds"][t][p][0] - slack or v > hcd["bounds"][t][p][1] + slack for p, v in got.items()):
                        R.bad("instructions-within-bounds", "C14:instructions-violate-bound", wit)
                    else:
                        R.ok("instructions-within-bounds")
                for adj in packages:
                    vals = np.array([float(instr2.alloc[m].get(adj.t)) for m in adj.prog_name])
                    tot = vals.sum()
                    R.count("package_checks")
                    if tot > 0:
                        fr = vals / tot
                        if np.any(fr < adj.min_props - 1e-6) or np.any(fr > adj.max_props + 1e-6):
                            R.bad("package-proportions", "C14:package-share-outside-min/max", {"shares": fr.tolist(), "min": adj.min_props.tolist(), "max": adj.max_props.tolist()})
                        else:
                            R.ok("package-proportions")
                    if adj.adjust_total_spend:
                        lo, hi = adj.adjustables[-1].lower_bound, adj.adjustables[-1].upper_bound
                        if tot < lo * (1 - 1e-6) - 1e-9 or tot > hi * (1 + 1e-6) + 1e-9:
                            R.bad("package-total", "C14:package-total-outside-limits", {"total": float(tot), "min": lo, "max": hi})
                        else:
                            R.ok("package-total")
            if len(samples) < 2:
                samples.append({"programs": n, "years": years, "adjustments": [type(a).__name__ for a in adjustments], "constraint": {"t": list(map(float, cons.t)), "total": list(map(float, cons.total_spend)), "budget_factor": list(map(float, cons.budget_factor))}})
    return {"records": R.records(), "stats": R.stats, "nontrivial": R.stats.get("projection_moved_proposal", 0) > 0, "sample": {"kind": "constraint", "optimizations": samples}}


def run_case(case):
    R = ref.Recs()
    if case["kind"] == "direct":
        return run_direct(case, R)
    return run_constraint(case, R)

"""C18 - input files are accepted and runnable, or rejected with the dedicated error."""

import io

import numpy as np

from av import gen, ref, simcase
from av.props import simprop

MANIFEST_ENTRY = {
    "category": "exploration",
    "technique": "exception-classification oracle over a mutation catalogue with known verdicts applied to valid generated and library workbooks (cell-level edits located by header text), plus an accepted-implies-runnable monitor on every accepted framework",
    "text": "Valid generated frameworks must be accepted, produce a blank databook that reads back, and - once filled with valid numbers - build and run without NaN. Every mutation of the catalogue (delete a required sheet / column, blank an optional column, undefined compartment / parameter / population / characteristic component, duplicate code or display name, reserved names and symbols, wrong unit on junction / source / sink links, outflow from a sink, inflow to a source, self-referencing and cyclic functions, unsupported calls, syntax errors, aggregation of an expression, un-nested cascade, the two junction rules of the timed-transition documentation, missing population sheet / table / row values, unit mismatch, wrong workbook kind, program without targets or unit cost, reserved program name, ...) is applied to a valid parent and the loader's reaction is classified: DEDICATED (InvalidFramework / InvalidCascade / InvalidDatabook / InvalidProgramBook), INTERNAL (anything else), or accepted. must-reject mutants have to end DEDICATED, must-accept mutants have to be accepted (and behave like the parent where stated), and an INTERNAL error is always a violation. The catalogue includes duplicate names across sheets and databook unit cells holding another valid unit word. Cycles through population-aggregation parameters and an aggregation of itself are must-reject classes. Cascade stages naming an undefined name, a parameter or an interaction are must-reject classes. A Units cell with the right unit word but another time scale is a must-reject class. Value rows are blanked per kind of table (parameter with a function, parameter without, compartment, characteristic). Minimal valid layouts (one compartment per population, transfers only, no units) are part of the valid class; outcome columns of a program book headed by something that is not a program are must-reject classes. A table duplicated on another sheet is a must-reject class.",
    "note": "The catalogue is finite and hand-written from the documented rules; a rule that is not in the catalogue is not exercised. Mutations locate cells by header text, never by coordinates.",
}

META = {
    "level": "exploration",
    "rule": "cases = (valid generated or library parent, one catalogue mutation) and plain valid frameworks for the accept+run claim; non-trivial = a mutated file whose verdict differs from its parent's (i.e. a must-reject mutant of an accepted parent), or an accepted framework that was run; distinct = case fingerprints",
    "deciding_counters": ["mutants_applied", "must_reject_mutants", "must_accept_mutants", "accepted_frameworks_run"],
    "assumptions": ["'reading' a databook includes the semantic validation done by Project.load_databook; 'reading' a program book includes ProgramSet.validate as done by Project.load_progbook"],
    "case_timeout": 300,
}

N_VALID = {"quick": 120, "thorough": 4000}
N_MUT = {"quick": 520, "thorough": 20000}
LIB = ["sir", "tb", "udt", "hiv", "hypertension", "diabetes"]

DEDICATED = {"InvalidFramework", "InvalidCascade", "InvalidDatabook", "InvalidProgramBook"}

# ---------------------------------------------------------------------------------------------
# framework mutations: (name, verdict, function(spec, wb, rng) -> bool applied)
# ---------------------------------------------------------------------------------------------


def sheet(wb, name):
    for ws in wb.worksheets:
        if ws.title.lower() == name.lower():
            return ws
    return None


def header(ws):
    return {str(c.value).strip().lower(): c.column for c in ws[1] if c.value is not None}


def rows_by_code(ws):
    out = {}
    for r in range(2, ws.max_row + 1):
        v = ws.cell(r, 1).value
        if v is not None:
            out[str(v)] = r
    return out


def set_cell(wb, sheetname, code, col, value):
    ws = sheet(wb, sheetname)
    h = header(ws)
    r = rows_by_code(ws)
    if code not in r or col.lower() not in h:
        return False
    ws.cell(r[code], h[col.lower()]).value = value
    return True


def delete_column(wb, sheetname, col):
    ws = sheet(wb, sheetname)
    h = header(ws)
    if col.lower() not in h:
        return False
    ws.delete_cols(h[col.lower()])
    return True


def blank_column(wb, sheetname, col):
    ws = sheet(wb, sheetname)
    h = header(ws)
    if col.lower() not in h:
        return False
    for r in range(2, ws.max_row + 1):
        ws.cell(r, h[col.lower()]).value = None
    return True


def trans_cell(wb, a, b, value=None, get=False):
    ws = sheet(wb, "Transitions")
    cols = {str(c.value): c.column for c in ws[1] if c.value is not None}
    rows = {str(ws.cell(r, 1).value): r for r in range(2, ws.max_row + 1) if ws.cell(r, 1).value is not None}
    if a not in rows or b not in cols:
        return None if get else False
    if get:
        return ws.cell(rows[a], cols[b]).value
    ws.cell(rows[a], cols[b]).value = value
    return True


def _ords(spec):
    return [c["name"] for c in spec["comps"] if c["kind"] == "ord"]


def _pick(rng, seq):
    return seq[int(rng.integers(0, len(seq)))] if seq else None


def m_delete_parameters_sheet(spec, wb, rng):
    del wb["Parameters"]
    return True


def m_delete_col(sheetname, col):
    def f(spec, wb, rng):
        return delete_column(wb, sheetname, col)

    return f


def m_blank_col(sheetname, col):
    def f(spec, wb, rng):
        return blank_column(wb, sheetname, col)

    return f


def m_undefined_comp_in_transitions(spec, wb, rng):
    ws = sheet(wb, "Transitions")
    ws.cell(1, ws.max_column + 1).value = "ghost"
    ws.cell(2, ws.max_column).value = _pick(rng, [p["name"] for p in spec["pars"] if p["name"].startswith("q")]) or "q0"
    return True


def m_undefined_par_in_transitions(spec, wb, rng):
    o = _ords(spec)
    for a in o:
        for b in o:
            if a != b and trans_cell(wb, a, b, get=True) is None:
                return trans_cell(wb, a, b, "ghostpar")
    return False


def m_function(fn_maker, need_function_free=False):
    def f(spec, wb, rng):
        cands = [p for p in spec["pars"] if not p["timed"] and not p["name"].startswith(("out", "agg", "birth"))]
        if not cands:
            return False
        p = _pick(rng, cands)
        fn = fn_maker(spec, p, rng)
        if fn is None:
            return False
        return set_cell(wb, "Parameters", p["name"], "Function", fn)

    return f


def m_cyclic(spec, wb, rng):
    cands = [p for p in spec["pars"] if p["name"].startswith("aux")]
    if len(cands) < 2:
        return False
    a, b = cands[0]["name"], cands[1]["name"]
    return set_cell(wb, "Parameters", a, "Function", "%s+1" % b) and set_cell(wb, "Parameters", b, "Function", "%s*2" % a)


def m_cycle_through_aggregation(self_reference):
    """a circular dependency that passes through a population aggregation: agg0 = SRC_POP_AVG(v, ...) and v = f(agg0); or the
    aggregation of itself"""

    def f(spec, wb, rng):
        aggs = [p for p in spec["pars"] if p["name"].startswith("agg") and p.get("function")]
        if not aggs:
            return False
        agg = aggs[0]
        inner = agg["function"].split("(", 1)[1].rstrip(")").split(",")
        var = inner[0].strip()
        if self_reference:
            rest = ",".join(x.strip() for x in inner[1:])
            return set_cell(wb, "Parameters", agg["name"], "Function", "%s(%s%s)" % (agg["function"].split("(")[0], agg["name"], ("," + rest) if rest else ""))
        if var not in [p["name"] for p in spec["pars"]]:
            return False  # aggregates a compartment: no parameter cycle can be closed
        return set_cell(wb, "Parameters", var, "Function", "0.1+0*%s" % agg["name"])

    return f


def m_duplicate_code(spec, wb, rng):
    ws = sheet(wb, "Parameters")
    h = header(ws)
    r = ws.max_row + 1
    src = 2
    for c in range(1, ws.max_column + 1):
        ws.cell(r, c).value = ws.cell(src, c).value
    ws.cell(r, 1).value = _ords(spec)[0]  # a parameter named like a compartment
    ws.cell(r, h["display name"]).value = "Another name"
    if "function" in h:
        ws.cell(r, h["function"]).value = None
    ws.cell(r, h["databook page"]).value = "pars"
    return True


def m_duplicate_display(spec, wb, rng):
    ws = sheet(wb, "Compartments")
    h = header(ws)
    if ws.max_row < 3:
        return False
    ws.cell(3, h["display name"]).value = ws.cell(2, h["display name"]).value
    return True


def m_duplicate_display_across(sheet_a, sheet_b):
    """the display name of the first row of sheet_a is given to a row of sheet_b as well"""

    def f(spec, wb, rng):
        try:
            wa, wb_ = sheet(wb, sheet_a), sheet(wb, sheet_b)
        except Exception:
            return False
        ha, hb = header(wa), header(wb_)
        if wa.max_row < 2 or wb_.max_row < 2 or "display name" not in ha or "display name" not in hb:
            return False
        name = wa.cell(2, ha["display name"]).value
        if not name:
            return False
        r = 2 + int(rng.integers(0, wb_.max_row - 1))
        if wb_.cell(r, 1).value in (None, ""):
            r = 2
        wb_.cell(r, hb["display name"]).value = name
        return True

    return f


def m_duplicate_code_same_sheet(sheetname):
    def f(spec, wb, rng):
        ws = sheet(wb, sheetname)
        if ws.max_row < 3 or ws.cell(3, 1).value in (None, ""):
            return False
        ws.cell(3, 1).value = ws.cell(2, 1).value
        return True

    return f


def m_rename_code(newname):
    def f(spec, wb, rng):
        cands = [p["name"] for p in spec["pars"] if p["name"].startswith("aux") and p["function"] is None]
        used = " ".join(str(p.get("function")) for p in spec["pars"])
        cands = [c for c in cands if c not in used]
        if not cands:
            return False
        ws = sheet(wb, "Parameters")
        ws.cell(rows_by_code(ws)[cands[0]], 1).value = newname
        return True

    return f


def m_junction_rate_unit(spec, wb, rng):
    pj = [p["name"] for p in spec["pars"] if p["name"].startswith("pj")]
    if not pj:
        return False
    return set_cell(wb, "Parameters", _pick(rng, pj), "Format", "rate")


def m_proportion_on_ordinary(spec, wb, rng):
    q = [p["name"] for p in spec["pars"] if p["name"].startswith("q") and not p["timed"]]
    if not q:
        return False
    return set_cell(wb, "Parameters", _pick(rng, q), "Format", "proportion")


def m_source_rate_unit(spec, wb, rng):
    b = [p["name"] for p in spec["pars"] if p["name"].startswith("birth")]
    if not b:
        return False
    return set_cell(wb, "Parameters", b[0], "Format", "rate")


def m_sink_outflow(spec, wb, rng):
    sinks = [c["name"] for c in spec["comps"] if c["kind"] == "sink"]
    q = [p["name"] for p in spec["pars"] if p["name"].startswith("q") and not p["timed"]]
    if not sinks or not q:
        return False
    # a fresh parameter so that the 'two links from one compartment' rule is not what fires
    ws = sheet(wb, "Parameters")
    h = header(ws)
    r = ws.max_row + 1
    ws.cell(r, 1).value = "sinkout"
    ws.cell(r, h["display name"]).value = "Sink outflow"
    ws.cell(r, h["format"]).value = "rate"
    ws.cell(r, h["databook page"]).value = "pars"
    return trans_cell(wb, sinks[0], _ords(spec)[0], "sinkout")


def m_source_inflow(spec, wb, rng):
    if not any(c["kind"] == "src" for c in spec["comps"]):
        return False
    ws = sheet(wb, "Parameters")
    h = header(ws)
    r = ws.max_row + 1
    ws.cell(r, 1).value = "tosrc"
    ws.cell(r, h["display name"]).value = "Into source"
    ws.cell(r, h["format"]).value = "rate"
    ws.cell(r, h["databook page"]).value = "pars"
    return trans_cell(wb, _ords(spec)[0], "src", "tosrc")


def m_unnested_cascade(spec, wb, rng):
    o = _ords(spec)
    if len(o) < 2:
        return False
    ws = sheet(wb, "Cascades")
    for r in range(1, ws.max_row + 1):
        for c in range(1, ws.max_column + 1):
            ws.cell(r, c).value = None
    ws.cell(1, 1).value = "main"
    ws.cell(1, 2).value = "Constituents"
    ws.cell(2, 1).value = "First"
    ws.cell(2, 2).value = o[0]
    ws.cell(3, 1).value = "Second"
    ws.cell(3, 2).value = o[1]
    return True


def m_cascade_stage_names(kind):
    """A cascade stage may list compartments and characteristics only: an undefined name, or the code name of a
    parameter / an interaction (defined, but of the wrong kind), must be rejected as an invalid framework."""

    def f(spec, wb, rng):
        if kind == "undefined":
            name = "ghost"
        elif kind == "parameter":
            cands = [p["name"] for p in spec["pars"] if not p["timed"]]
            if not cands:
                return False
            name = cands[int(rng.integers(0, len(cands)))]
        else:
            if not spec.get("interactions"):
                return False
            name = spec["interactions"][0]["name"]
        ws = sheet(wb, "Cascades")
        for r in range(1, ws.max_row + 1):
            for c in range(1, ws.max_column + 1):
                ws.cell(r, c).value = None
        ws.cell(1, 1).value = "main"
        ws.cell(1, 2).value = "Constituents"
        ws.cell(2, 1).value = "First"
        ws.cell(2, 2).value = "alive"
        ws.cell(3, 1).value = "Second"
        ws.cell(3, 2).value = name if rng.random() < 0.5 else "%s, %s" % (_ords(spec)[0], name)
        return True

    return f


def m_charac_undefined_component(spec, wb, rng):
    return set_cell(wb, "Characteristics", "alive", "Components", ", ".join(_ords(spec) + ["ghost"]))


def m_charac_undefined_denominator(spec, wb, rng):
    ws = sheet(wb, "Characteristics")
    r = rows_by_code(ws)
    cands = [k for k in r if k not in ("alive", "prev")]
    if not cands:
        return False
    return set_cell(wb, "Characteristics", cands[0], "Denominator", "ghost")


def m_no_function_no_page(spec, wb, rng):
    cands = [p["name"] for p in spec["pars"] if p["db"] and not p["function"] and not p["timed"]]
    if not cands:
        return False
    return set_cell(wb, "Parameters", cands[0], "Databook Page", None)


def m_bad_flag(spec, wb, rng):
    return set_cell(wb, "Compartments", _ords(spec)[0], "Is Sink", "maybe")


def m_text_in_numeric(spec, wb, rng):
    p = _pick(rng, [p["name"] for p in spec["pars"]])
    return set_cell(wb, "Parameters", p, "Minimum Value", "low")


def m_timed_not_duration(spec, wb, rng):
    d = [p["name"] for p in spec["pars"] if p["timed"]]
    if not d:
        return False
    return set_cell(wb, "Parameters", d[0], "Format", "rate")


def m_timed_targetable(spec, wb, rng):
    d = [p["name"] for p in spec["pars"] if p["timed"]]
    if not d:
        return False
    return set_cell(wb, "Parameters", d[0], "Targetable", "y")


def m_flush_into_same_group(spec, wb, rng):
    for g in spec["meta"].get("groups", []):
        if len(g["members"]) >= 2:
            a, b = g["members"][0], g["members"][1]
            # redirect a's timed outflow into b
            for x, y, p in spec["trans"]:
                if x == a and g["par"] in gen._split(p):
                    rest = [q for q in gen._split(p) if q != g["par"]]
                    trans_cell(wb, x, y, ", ".join(rest) if rest else None)
            cur = trans_cell(wb, a, b, get=True)
            return trans_cell(wb, a, b, (cur + ", " if cur else "") + g["par"])
    return False


def m_two_timed_outflows(spec, wb, rng):
    gs = spec["meta"].get("groups", [])
    if not gs:
        return False
    g = gs[0]
    a = g["members"][0]
    ws = sheet(wb, "Parameters")
    h = header(ws)
    r = ws.max_row + 1
    ws.cell(r, 1).value = "dur_extra"
    ws.cell(r, h["display name"]).value = "Second duration"
    ws.cell(r, h["format"]).value = "duration"
    ws.cell(r, h["databook page"]).value = "pars"
    ws.cell(r, h["timed"]).value = "y"
    dests = [c for c in _ords(spec) if c not in g["members"]] + [c["name"] for c in spec["comps"] if c["kind"] == "sink"]
    for d in dests:
        if trans_cell(wb, a, d, get=True) is None:
            return trans_cell(wb, a, d, "dur_extra")
    return False


def m_junction_mixed_group(spec, wb, rng):
    """A junction fed by a member of a duration group (timed input) and by an ungrouped compartment, with an output
    back into the group: violates junction rule 1 of the timed-transition documentation."""
    gs = spec["meta"].get("groups", [])
    o = _ords(spec)
    grouped = {m for g in gs for m in g["members"]}
    free = [c for c in o if c not in grouped]
    if not gs or not free:
        return False
    g = gs[0]
    a = g["members"][0]
    ws = sheet(wb, "Compartments")
    h = header(ws)
    r = ws.max_row + 1
    ws.cell(r, 1).value = "jmix"
    ws.cell(r, h["display name"]).value = "Mixed junction"
    ws.cell(r, h["is source"]).value = "n"
    ws.cell(r, h["is sink"]).value = "n"
    ws.cell(r, h["is junction"]).value = "y"
    ws.cell(r, h["setup weight"]).value = 0
    tw = sheet(wb, "Transitions")
    tw.cell(1, tw.max_column + 1).value = "jmix"
    tw.cell(tw.max_row + 1, 1).value = "jmix"
    pw = sheet(wb, "Parameters")
    ph = header(pw)
    for nm, fmt in (("jin1", "rate"), ("jin2", "rate"), ("jout", "proportion")):
        rr = pw.max_row + 1
        pw.cell(rr, 1).value = nm
        pw.cell(rr, ph["display name"]).value = "Par " + nm
        pw.cell(rr, ph["format"]).value = fmt
        pw.cell(rr, ph["databook page"]).value = "pars"
    return trans_cell(wb, a, "jmix", "jin1") and trans_cell(wb, free[0], "jmix", "jin2") and trans_cell(wb, "jmix", a, "jout")


def m_junction_flush_back(spec, wb, rng):
    """Rule: a junction that receives the flush link of a duration group cannot move people back into that group."""
    gs = spec["meta"].get("groups", [])
    if not gs:
        return False
    g = gs[0]
    a = g["members"][0]
    ws = sheet(wb, "Compartments")
    h = header(ws)
    r = ws.max_row + 1
    ws.cell(r, 1).value = "jback"
    ws.cell(r, h["display name"]).value = "Back junction"
    ws.cell(r, h["is source"]).value = "n"
    ws.cell(r, h["is sink"]).value = "n"
    ws.cell(r, h["is junction"]).value = "y"
    ws.cell(r, h["setup weight"]).value = 0
    tw = sheet(wb, "Transitions")
    tw.cell(1, tw.max_column + 1).value = "jback"
    tw.cell(tw.max_row + 1, 1).value = "jback"
    pw = sheet(wb, "Parameters")
    ph = header(pw)
    rr = pw.max_row + 1
    pw.cell(rr, 1).value = "jbout"
    pw.cell(rr, ph["display name"]).value = "Par jbout"
    pw.cell(rr, ph["format"]).value = "proportion"
    pw.cell(rr, ph["databook page"]).value = "pars"
    # move a's flush link onto the junction
    for x, y, p in spec["trans"]:
        if x == a and g["par"] in gen._split(p):
            rest = [q for q in gen._split(p) if q != g["par"]]
            trans_cell(wb, x, y, ", ".join(rest) if rest else None)
    return trans_cell(wb, a, "jback", g["par"]) and trans_cell(wb, "jback", a, "jbout")


def m_capitalised_units(spec, wb, rng):
    ws = sheet(wb, "Parameters")
    h = header(ws)
    n = 0
    for r in range(2, ws.max_row + 1):
        v = ws.cell(r, h["format"]).value
        if isinstance(v, str):
            ws.cell(r, h["format"]).value = v.title()
            n += 1
    return n > 0


def m_extra_sheet(spec, wb, rng):
    ws = wb.create_sheet("Notes")
    ws.append(["anything", "goes"])
    ws.append([1, 2])
    return True


def m_whitespace_names(spec, wb, rng):
    ws = sheet(wb, "Parameters")
    h = header(ws)
    for r in range(2, ws.max_row + 1):
        v = ws.cell(r, h["display name"]).value
        if isinstance(v, str):
            ws.cell(r, h["display name"]).value = "  " + v + "  "
    return True


FW_MUTATIONS = [
    ("delete-sheet[parameters]", "reject", m_delete_parameters_sheet),
    ("delete-column[compartments.display name]", "reject", m_delete_col("Compartments", "Display Name")),
    ("delete-column[parameters.format]", "reject", m_delete_col("Parameters", "Format")),
    ("delete-column[parameters.code name]", "reject", m_delete_col("Parameters", "Code Name")),
    ("delete-column[characteristics.components]", "reject", m_delete_col("Characteristics", "Components")),
    ("blank-optional-column[compartments.setup weight]", "accept", m_blank_col("Compartments", "Setup Weight")),
    ("blank-optional-column[characteristics.setup weight]", "accept", m_blank_col("Characteristics", "Setup Weight")),
    ("blank-optional-column[characteristics.default value]", "accept", m_blank_col("Characteristics", "Default Value")),
    ("blank-optional-column[parameters.default value]", "accept", m_blank_col("Parameters", "Default Value")),
    ("delete-optional-column[parameters.default value]", "accept", m_delete_col("Parameters", "Default Value")),
    ("delete-optional-column[compartments.default value]", "accept", m_delete_col("Compartments", "Default Value")),
    ("delete-optional-column[parameters.is derivative]", "accept", m_delete_col("Parameters", "Is Derivative")),
    ("capitalised-standard-units", "accept", m_capitalised_units),
    ("extra-sheet", "accept", m_extra_sheet),
    ("whitespace-around-display-names", "accept", m_whitespace_names),
    ("undefined-compartment-in-transitions", "reject", m_undefined_comp_in_transitions),
    ("undefined-parameter-in-transitions", "reject", m_undefined_par_in_transitions),
    ("undefined-name-in-function", "reject", m_function(lambda s, p, r: "ghost*2")),
    ("self-referencing-function", "reject", m_function(lambda s, p, r: "%s+1" % p["name"])),
    ("cyclic-functions", "reject", m_cyclic),
    ("cyclic-functions-through-aggregation", "reject", m_cycle_through_aggregation(False)),
    ("aggregation-of-itself", "reject", m_cycle_through_aggregation(True)),
    ("unsupported-call-in-function", "reject", m_function(lambda s, p, r: "abs(%s)" % _ords(s)[0])),
    ("attribute-access-in-function", "reject", m_function(lambda s, p, r: "%s.real" % _ords(s)[0])),
    ("syntax-error-in-function", "reject", m_function(lambda s, p, r: "(%s+" % _ords(s)[0])),
    ("double-underscore-in-function", "reject", m_function(lambda s, p, r: "%s__x" % _ords(s)[0])),
    ("numeric-function-cell", "reject", m_function(lambda s, p, r: 3)),
    ("aggregation-of-expression", "reject", m_function(lambda s, p, r: "SRC_POP_AVG(%s+1)" % _ords(s)[0])),
    ("duplicate-code-name", "reject", m_duplicate_code),
    ("duplicate-display-name", "reject", m_duplicate_display),
    ("duplicate-display-name-across-sheets[compartment=parameter]", "reject", m_duplicate_display_across("Compartments", "Parameters")),
    ("duplicate-display-name-across-sheets[compartment=characteristic]", "reject", m_duplicate_display_across("Compartments", "Characteristics")),
    ("duplicate-display-name-across-sheets[parameter=characteristic]", "reject", m_duplicate_display_across("Parameters", "Characteristics")),
    ("duplicate-display-name-across-sheets[characteristic=interaction]", "reject", m_duplicate_display_across("Characteristics", "Interactions")),
    ("duplicate-code-name-within-sheet[Compartments]", "reject", m_duplicate_code_same_sheet("Compartments")),
    ("duplicate-code-name-within-sheet[Characteristics]", "reject", m_duplicate_code_same_sheet("Characteristics")),
    ("reserved-keyword-code-name[t]", "reject", m_rename_code("t")),
    ("reserved-keyword-code-name[all]", "reject", m_rename_code("all")),
    ("reserved-keyword-code-name[max]", "reject", m_rename_code("max")),
    ("reserved-symbol-in-code-name[:]", "reject", m_rename_code("a:b")),
    ("reserved-symbol-in-code-name[space]", "reject", m_rename_code("a b")),
    ("junction-outflow-in-rate-units", "reject", m_junction_rate_unit),
    ("proportion-units-on-ordinary-link", "reject", m_proportion_on_ordinary),
    ("source-outflow-in-rate-units", "reject", m_source_rate_unit),
    ("outflow-from-sink", "reject", m_sink_outflow),
    ("inflow-to-source", "reject", m_source_inflow),
    ("un-nested-cascade", "reject", m_unnested_cascade),
    ("cascade-stage-names[undefined]", "reject", m_cascade_stage_names("undefined")),
    ("cascade-stage-names[parameter]", "reject", m_cascade_stage_names("parameter")),
    ("cascade-stage-names[interaction]", "reject", m_cascade_stage_names("interaction")),
    ("undefined-characteristic-component", "reject", m_charac_undefined_component),
    ("undefined-characteristic-denominator", "reject", m_charac_undefined_denominator),
    ("parameter-without-function-or-databook-page", "reject", m_no_function_no_page),
    ("invalid-flag-value", "reject", m_bad_flag),
    ("text-in-numeric-column", "reject", m_text_in_numeric),
    ("timed-parameter-not-duration", "reject", m_timed_not_duration),
    ("timed-parameter-targetable", "reject", m_timed_targetable),
    ("flush-into-same-duration-group", "reject", m_flush_into_same_group),
    ("two-timed-outflows-from-one-compartment", "reject", m_two_timed_outflows),
    ("junction-mixes-group-and-ungrouped", "reject", m_junction_mixed_group),
    ("junction-returns-flushed-people-to-group", "reject", m_junction_flush_back),
]


# ---------------------------------------------------------------------------------------------
# databook / progbook mutations operate on the written workbook (openpyxl)
# ---------------------------------------------------------------------------------------------
def find_table_rows(ws, title):
    """rows of the TDVE table whose top-left cell equals title: returns (header_row, [data rows])"""
    for r in range(1, ws.max_row + 1):
        if ws.cell(r, 1).value == title:
            rows = []
            rr = r + 1
            while rr <= ws.max_row and ws.cell(rr, 1).value not in (None, ""):
                rows.append(rr)
                rr += 1
            return r, rows
    return None, []


def db_m_delete_pop_sheet(spec, wb, rng, fw):
    del wb["Population Definitions"]
    return True


def db_m_delete_tdve_sheet(spec, wb, rng, fw):
    if "Parameters" not in wb.sheetnames:
        return False
    del wb["Parameters"]
    return True


def db_m_blank_row_values(spec, wb, rng, fw):
    for ws in wb.worksheets:
        if ws.title in ("Parameters", "Compartments"):
            for r in range(1, ws.max_row + 1):
                if ws.cell(r, 1).value in spec["pops"]:
                    for c in range(3, ws.max_column + 1):
                        if isinstance(ws.cell(r, c).value, (int, float)):
                            ws.cell(r, c).value = None
                    return True
    return False


def db_m_blank_row_values_of(kind):
    """all values (constant and years) of one population's row are blanked in a table of the given kind: a parameter that
    also has a function, a parameter without one, a compartment, a characteristic"""

    def f(spec, wb, rng, fw):
        fpars = {n for n, row in fw.pars.iterrows() if isinstance(row["function"], str)}
        wanted = {"function-parameter": fpars, "plain-parameter": set(fw.pars.index) - fpars, "compartment": set(fw.comps.index), "characteristic": set(fw.characs.index)}[kind]
        labels = {}
        for df in (fw.comps, fw.characs, fw.pars):
            for code, row in df.iterrows():
                labels[row["display name"]] = code
        rows = []
        for ws in wb.worksheets:
            if ws.title in ("Population Definitions", "Transfers", "Interactions"):
                continue
            title = None
            for r in range(1, ws.max_row + 1):
                v = ws.cell(r, 1).value
                if v in labels:
                    title = labels[v]
                    continue
                if v in (None, ""):
                    title = None
                    continue
                if title in wanted and v in spec["pops"] and any(isinstance(ws.cell(r, c).value, (int, float)) for c in range(3, ws.max_column + 1)):
                    rows.append((ws, r))
        if not rows:
            return False
        ws, r = rows[int(rng.integers(0, len(rows)))]
        for c in range(3, ws.max_column + 1):
            if isinstance(ws.cell(r, c).value, (int, float)):
                ws.cell(r, c).value = None
        return True

    return f


def db_m_wrong_units(spec, wb, rng, fw):
    ws = wb["Parameters"] if "Parameters" in wb.sheetnames else None
    if ws is None:
        return False
    for r in range(1, ws.max_row + 1):
        if ws.cell(r, 1).value in spec["pops"]:
            for c in range(2, 6):
                v = ws.cell(r, c).value
                if isinstance(v, str) and v.lower().startswith(("rate", "probability", "number", "duration")):
                    ws.cell(r, c).value = "Furlongs"
                    return True
    return False


def db_m_units_swapped(kind):
    """the Units cell of a compartment / characteristic / parameter row is replaced by another *valid* unit word"""

    def f(spec, wb, rng, fw):
        wanted = {"compartment": set(fw.comps.index), "characteristic": set(fw.characs.index), "parameter": set(fw.pars.index)}[kind]
        labels = {}
        for df in (fw.comps, fw.characs, fw.pars):
            for code, row in df.iterrows():
                labels[row["display name"]] = code
        swap = {"number": "Probability", "fraction": "Number", "probability": "Number", "rate": "Duration", "duration": "Probability", "proportion": "Number", "n.a.": "Number"}
        for ws in wb.worksheets:
            if ws.title in ("Population Definitions", "Transfers", "Interactions"):
                continue
            title = None
            for r in range(1, ws.max_row + 1):
                v = ws.cell(r, 1).value
                if v in labels:
                    title = labels[v]
                    continue
                if v in (None, ""):
                    title = None
                    continue
                if title in wanted and v in spec["pops"]:
                    for c in range(2, 7):
                        u = ws.cell(r, c).value
                        if isinstance(u, str) and u.strip().lower().split(" ")[0] in swap:
                            ws.cell(r, c).value = swap[u.strip().lower().split(" ")[0]]
                            return True
        return False

    return f


def db_m_units_other_qualifier(spec, wb, rng, fw):
    """the Units cell keeps its unit word but states another time scale: 'Rate (per year)' -> 'Rate (per fortnight)'"""
    cells = []
    for ws in wb.worksheets:
        if ws.title in ("Population Definitions", "Transfers", "Interactions"):
            continue
        for r in range(1, ws.max_row + 1):
            if ws.cell(r, 1).value in spec["pops"]:
                for c in range(2, 7):
                    u = ws.cell(r, c).value
                    if isinstance(u, str) and "(" in u and u.strip().endswith(")") and u.strip().lower().split(" ")[0] in ("rate", "probability", "number", "duration"):
                        cells.append((ws, r, c, u))
    if not cells:
        return False
    ws, r, c, u = cells[int(rng.integers(0, len(cells)))]
    word = u.strip().split(" ")[0]
    ws.cell(r, c).value = "%s (%s)" % (word, "fortnights" if word.lower() == "duration" else "per fortnight")
    return True


def db_m_missing_pop_row(spec, wb, rng, fw):
    if len(spec["pops"]) < 2:
        return False
    ws = wb["Parameters"] if "Parameters" in wb.sheetnames else None
    if ws is None:
        return False
    for r in range(1, ws.max_row + 1):
        if ws.cell(r, 1).value == spec["pops"][-1]:
            for c in range(1, ws.max_column + 1):
                ws.cell(r, c).value = None
            # close the gap so that the table is not split
            ws.delete_rows(r)
            return True
    return False


def db_m_unknown_table(spec, wb, rng, fw):
    ws = wb["Parameters"] if "Parameters" in wb.sheetnames else wb.worksheets[-1]
    for r in range(1, ws.max_row + 1):
        v = ws.cell(r, 1).value
        if isinstance(v, str) and v.startswith("Par "):
            ws.cell(r, 1).value = "No such quantity"
            return True
    return False


def db_m_duplicate_table(spec, wb, rng, fw):
    ws = wb["Parameters"] if "Parameters" in wb.sheetnames else None
    if ws is None:
        return False
    first = None
    for r in range(1, ws.max_row + 1):
        v = ws.cell(r, 1).value
        if isinstance(v, str) and v.startswith("Par "):
            if first is None:
                first = v
            elif v != first:
                ws.cell(r, 1).value = first
                return True
    return False


def db_m_duplicate_table_other_sheet(spec, wb, rng, fw):
    """the table of one quantity appears a second time, on another sheet (with other numbers)"""
    src = None
    for ws in wb.worksheets:
        if ws.title in ("Population Definitions", "Transfers", "Interactions"):
            continue
        r = 1
        while r <= ws.max_row:
            v = ws.cell(r, 1).value
            if isinstance(v, str) and v.startswith(("Par ", "Comp ")):
                r2 = r
                while r2 + 1 <= ws.max_row and ws.cell(r2 + 1, 1).value not in (None, ""):
                    r2 += 1
                if r2 > r:
                    src = (ws, r, r2)
                    break
            r += 1
        if src:
            break
    if not src:
        return False
    ws, r1, r2 = src
    new = wb.create_sheet("Other " + ws.title[:20])
    for i, r in enumerate(range(r1, r2 + 1)):
        for c in range(1, ws.max_column + 1):
            v = ws.cell(r, c).value
            new.cell(i + 1, c).value = (v * 0.5 if isinstance(v, float) and i > 0 and c > 2 else v)
    return True


def db_m_text_value(spec, wb, rng, fw):
    ws = wb["Parameters"] if "Parameters" in wb.sheetnames else None
    if ws is None:
        return False
    for r in range(1, ws.max_row + 1):
        if ws.cell(r, 1).value in spec["pops"]:
            for c in range(3, ws.max_column + 1):
                if isinstance(ws.cell(r, c).value, (int, float)):
                    ws.cell(r, c).value = "lots"
                    return True
    return False


def db_m_wrong_kind(spec, wb, rng, fw):
    wb.properties.category = "atomica:framework"
    return True


def db_m_pop_named_like_quantity(spec, wb, rng, fw):
    ws = wb["Population Definitions"]
    ws.cell(2, 1).value = [c["name"] for c in spec["comps"]][0]
    return True


def db_m_extra_ignored_sheet(spec, wb, rng, fw):
    ws = wb.create_sheet("#ignore notes")
    ws.append(["free text", 1, 2])
    return True


def db_m_comment_cells(spec, wb, rng, fw):
    ws = wb["Parameters"] if "Parameters" in wb.sheetnames else None
    if ws is None:
        return False
    ws.cell(ws.max_row + 3, 1).value = "#ignore this row"
    return True


DB_MUTATIONS = [
    ("databook:delete-population-sheet", "reject", db_m_delete_pop_sheet),
    ("databook:delete-required-table-sheet", "reject", db_m_delete_tdve_sheet),
    ("databook:blank-row-values", "reject", db_m_blank_row_values),
    ("databook:blank-row-values[function-parameter]", "reject", db_m_blank_row_values_of("function-parameter")),
    ("databook:blank-row-values[plain-parameter]", "reject", db_m_blank_row_values_of("plain-parameter")),
    ("databook:blank-row-values[compartment]", "reject", db_m_blank_row_values_of("compartment")),
    ("databook:blank-row-values[characteristic]", "reject", db_m_blank_row_values_of("characteristic")),
    ("databook:unit-mismatch", "reject", db_m_wrong_units),
    ("databook:unit-mismatch[same unit word, other time scale]", "reject", db_m_units_other_qualifier),
    ("databook:unit-mismatch[compartment,other valid unit]", "reject", db_m_units_swapped("compartment")),
    ("databook:unit-mismatch[characteristic,other valid unit]", "reject", db_m_units_swapped("characteristic")),
    ("databook:unit-mismatch[parameter,other valid unit]", "reject", db_m_units_swapped("parameter")),
    ("databook:missing-population-row", "reject", db_m_missing_pop_row),
    ("databook:unknown-table", "reject", db_m_unknown_table),
    ("databook:duplicate-table", "reject", db_m_duplicate_table),
    ("databook:duplicate-table[on another sheet]", "reject", db_m_duplicate_table_other_sheet),
    ("databook:text-in-value-cell", "reject", db_m_text_value),
    ("databook:wrong-workbook-kind", "reject", db_m_wrong_kind),
    ("databook:population-named-like-quantity", "reject", db_m_pop_named_like_quantity),
    ("databook:extra-ignored-sheet", "accept", db_m_extra_ignored_sheet),
    ("databook:ignored-row", "accept", db_m_comment_cells),
]


def pb_targeting_cell(wb, progname, colname, value):
    ws = wb["Program targeting"]
    hdr_row = None
    for r in range(1, 6):
        vals = [ws.cell(r, c).value for c in range(1, ws.max_column + 1)]
        if any(isinstance(v, str) and v.lower().startswith("abbreviation") for v in vals):
            hdr_row = r
            break
    if hdr_row is None:
        return False
    cols = {str(ws.cell(hdr_row, c).value): c for c in range(1, ws.max_column + 1) if ws.cell(hdr_row, c).value is not None}
    for r in range(hdr_row + 1, ws.max_row + 1):
        if ws.cell(r, cols[[k for k in cols if k.lower().startswith("abbreviation")][0]]).value == progname:
            if colname == "__name__":
                ws.cell(r, cols[[k for k in cols if k.lower().startswith("abbreviation")][0]]).value = value
                return True
            if colname == "__all_targets__":
                for k, c in cols.items():
                    if ws.cell(r, c).value in ("Y", "y"):
                        ws.cell(r, c).value = value
                return True
    return False


def pb_m_no_targets(spec, wb, rng, ps):
    return pb_targeting_cell(wb, ps["programs"][0]["name"], "__all_targets__", None)


def pb_m_reserved_name(spec, wb, rng, ps):
    return pb_targeting_cell(wb, ps["programs"][0]["name"], "__name__", "all")


def pb_m_delete_sheet(name):
    def f(spec, wb, rng, ps):
        if name not in wb.sheetnames:
            return False
        del wb[name]
        return True

    return f


def pb_m_missing_unit_cost(spec, wb, rng, ps):
    ws = wb["Spending data"]
    for r in range(1, ws.max_row + 1):
        v = ws.cell(r, 1).value
        if isinstance(v, str) and v.strip().lower().startswith("unit cost"):
            for c in range(2, ws.max_column + 1):
                if c != 2:
                    ws.cell(r, c).value = None
            return True
    return False


def pb_m_text_spend(spec, wb, rng, ps):
    ws = wb["Spending data"]
    for r in range(1, ws.max_row + 1):
        v = ws.cell(r, 1).value
        if isinstance(v, str) and v.strip().lower().startswith("annual spend"):
            for c in range(3, ws.max_column + 1):
                if isinstance(ws.cell(r, c).value, (int, float)):
                    ws.cell(r, c).value = "plenty"
                    return True
    return False


def pb_m_wrong_kind(spec, wb, rng, ps):
    wb.properties.category = "atomica:databook"
    return True


def pb_m_unknown_effect_par(spec, wb, rng, ps):
    ws = wb["Program effects"]
    for r in range(1, ws.max_row + 1):
        v = ws.cell(r, 1).value
        if isinstance(v, str) and v.startswith("Par "):
            ws.cell(r, 1).value = "Par that does not exist"
            return True
    return False


def pb_m_outcome_without_baseline(spec, wb, rng, ps):
    ws = wb["Program effects"]
    hdr = None
    for r in range(1, ws.max_row + 1):
        vals = [ws.cell(r, c).value for c in range(1, ws.max_column + 1)]
        if any(isinstance(v, str) and v.lower().startswith("baseline") for v in vals):
            hdr = {str(v).lower(): c + 1 for c, v in enumerate(vals) if v is not None}
            continue
        if hdr and isinstance(ws.cell(r, 1).value, str) and ws.cell(r, 1).value.replace("Population ", "") in spec["pops"] and any(isinstance(ws.cell(r, c).value, (int, float)) for c in range(7, ws.max_column + 1)):
            bcol = [c for k, c in hdr.items() if k.startswith("baseline")][0]
            if ws.cell(r, bcol).value is not None:
                ws.cell(r, bcol).value = None
                return True
    return False


def pb_m_effect_heading(kind):
    """the heading of an outcome column that holds a value is not a program: an undefined name, or the (defined) name of a
    population, a compartment or a parameter"""

    def f(spec, wb, rng, ps):
        progs = {p_["name"] for p_ in ps["programs"]}
        name = {"undefined": "ghost", "population": spec["pops"][0], "compartment": _ords(spec)[0], "parameter": ([p_["name"] for p_ in spec["pars"] if p_.get("targetable")] or [None])[0]}[kind]
        if name is None:
            return False
        ws = wb["Program effects"]
        hdr_row = None
        for r in range(1, ws.max_row + 1):
            vals = [ws.cell(r, c).value for c in range(1, ws.max_column + 1)]
            if any(isinstance(v, str) and v.lower().startswith("baseline") for v in vals):
                hdr_row = r
                continue
            if hdr_row is not None and all(v is None for v in vals):
                hdr_row = None
                continue
            if hdr_row is not None:
                for c in range(1, ws.max_column + 1):
                    if ws.cell(hdr_row, c).value in progs and isinstance(ws.cell(r, c).value, (int, float)):
                        ws.cell(hdr_row, c).value = name
                        return True
        return False

    return f


PB_MUTATIONS = [
    ("progbook:program-without-targets", "reject", pb_m_no_targets),
    ("progbook:reserved-program-name", "reject", pb_m_reserved_name),
    ("progbook:delete-sheet[Program targeting]", "reject", pb_m_delete_sheet("Program targeting")),
    ("progbook:delete-sheet[Spending data]", "reject", pb_m_delete_sheet("Spending data")),
    ("progbook:delete-sheet[Program effects]", "reject", pb_m_delete_sheet("Program effects")),
    ("progbook:missing-unit-cost", "reject", pb_m_missing_unit_cost),
    ("progbook:text-in-spending-cell", "reject", pb_m_text_spend),
    ("progbook:wrong-workbook-kind", "reject", pb_m_wrong_kind),
    ("progbook:unknown-effect-parameter", "reject", pb_m_unknown_effect_par),
    ("progbook:outcome-column-heading-is-not-a-program[undefined]", "reject", pb_m_effect_heading("undefined")),
    ("progbook:outcome-column-heading-is-not-a-program[population]", "reject", pb_m_effect_heading("population")),
    ("progbook:outcome-column-heading-is-not-a-program[compartment]", "reject", pb_m_effect_heading("compartment")),
    ("progbook:outcome-column-heading-is-not-a-program[parameter]", "reject", pb_m_effect_heading("parameter")),
    ("progbook:outcome-without-baseline", "reject", pb_m_outcome_without_baseline),
]


# ---------------------------------------------------------------------------------------------
def count(tier, seed):
    return N_VALID[tier] + N_MUT[tier]


def make_case(tier, seed, index):
    if index < N_VALID[tier]:
        rng = gen.rng_for(seed, 18, index)
        pf_valid = {"p_targetable": 0.4, "steps": (2, 6)}
        if index % 8 == 3:
            # a minimal but valid layout: one compartment per population, transfers between populations, no transitions at all
            # (so no parameter has units and the Format column is entirely blank)
            pf_valid.update({"n_ord": (1, 1), "n_junctions": (0, 0), "p_timed": 0.0, "n_pops": (2, 3), "p_transfer": 1.0, "p_source": 0.0, "n_sinks": (0, 0), "n_aux": (1, 3)})
        spec_valid = gen.gen_spec(rng, pf_valid)
        if index % 16 == 3 and not spec_valid["trans"]:
            for p_ in spec_valid["pars"]:
                p_["format"] = None  # (units are optional for parameters that drive no transition)
        return {"kind": "valid", "spec": spec_valid}
    rng = gen.rng_for(seed, 18, 100000 + index)
    j = index - N_VALID[tier]
    total = len(FW_MUTATIONS) + len(DB_MUTATIONS) + len(PB_MUTATIONS)
    k = j % total
    pf = {"p_targetable": 0.6, "steps": (2, 5), "p_timed": 0.7, "n_junctions": (1, 3), "p_source": 0.8, "n_sinks": (1, 2), "n_aux": (2, 4), "n_pops": (2, 3)}
    if k < len(FW_MUTATIONS) and "aggregation" in FW_MUTATIONS[k][0]:
        pf = dict(pf, p_aggregation=1.0)  # the mutation needs a population-aggregation parameter
    spec = gen.gen_spec(rng, pf)
    if k < len(FW_MUTATIONS):
        return {"kind": "framework", "mutation": FW_MUTATIONS[k][0], "spec": spec, "seed": [seed, 18, index]}
    k -= len(FW_MUTATIONS)
    if k < len(DB_MUTATIONS):
        return {"kind": "databook", "mutation": DB_MUTATIONS[k][0], "spec": spec, "seed": [seed, 18, index]}
    k -= len(DB_MUTATIONS)
    ps = None
    for _ in range(10):
        ps = gen.gen_progspec(rng, spec)
        if ps is not None:
            break
        spec = gen.gen_spec(rng, pf)
    return {"kind": "progbook", "mutation": PB_MUTATIONS[k][0], "spec": spec, "progspec": ps, "seed": [seed, 18, index]}


def editable_workbook(ss):
    """openpyxl workbook of a written spreadsheet in which formula cells are replaced by their cached values
    (atomica's writers reference e.g. population names by formula; re-saving with openpyxl would drop the cached values)."""
    import openpyxl

    wb = openpyxl.load_workbook(ss.tofile())
    wv = openpyxl.load_workbook(ss.tofile(), data_only=True)
    for ws in wb.worksheets:
        wsv = wv[ws.title]
        for row in ws.iter_rows():
            for c in row:
                if c.data_type == "f":
                    c.value = wsv.cell(c.row, c.column).value
    wb.properties.category = wv.properties.category
    return wb


def classify(fn):
    """Returns ('accepted', value) | ('dedicated', exc) | ('internal', exc)."""
    try:
        return "accepted", fn()
    except BaseException as e:  # noqa
        if isinstance(e, (KeyboardInterrupt, SystemExit)):
            raise
        if type(e).__name__ in DEDICATED or any(b.__name__ in DEDICATED for b in type(e).__mro__):
            return "dedicated", e
        return "internal", e


def where(e):
    import traceback

    tb = traceback.extract_tb(e.__traceback__)
    for fr in reversed(tb):
        if "/atomica/" in fr.filename:
            return "%s@%s.%s" % (type(e).__name__, fr.filename.split("/")[-1].replace(".py", ""), fr.name)
    return type(e).__name__


def judge(R, mutation, verdict, outcome, payload, kind):
    R.count("mutants_applied")
    if verdict == "reject":
        R.count("must_reject_mutants")
    else:
        R.count("must_accept_mutants")
    if outcome == "internal":
        R.bad("no-internal-errors", "C18:internal-error[%s]{%s}" % (where(payload), mutation), {"mutation": mutation, "error": "%s: %s" % (type(payload).__name__, str(payload)[:300])})
        return False
    R.ok("no-internal-errors")
    if verdict == "reject" and outcome == "accepted":
        R.bad("rule-breaking-file-rejected", "C18:silently-accepted{%s}" % mutation, {"mutation": mutation})
        return False
    if verdict == "accept" and outcome == "dedicated":
        R.bad("valid-file-accepted", "C18:valid-file-rejected{%s}" % mutation, {"mutation": mutation, "error": str(payload)[:300]})
        return False
    R.ok("verdict-as-documented")
    if verdict == "reject" and outcome == "dedicated" and len(str(payload)) < 10:
        R.bad("error-names-the-problem", "C18:empty-error-message{%s}" % mutation, {"mutation": mutation})
    return True


def run_valid(case, R):
    import atomica as at
    import sciris as sc

    spec = case["spec"]
    wbytes = gen.workbook_bytes(gen.framework_workbook(spec))
    outcome, fw = classify(lambda: gen.load_framework(wbytes))
    if outcome != "accepted":
        if outcome == "internal":
            R.bad("valid-framework-accepted", "C18:internal-error[%s]{valid-framework}" % where(fw), {"error": str(fw)[:300]})
        else:
            R.count("generator_invalid")
            R.count("generator_invalid[%s]" % str(fw)[:60])
        return False
    R.ok("valid-framework-accepted")
    # blank databook reads back
    pops = {p: "Population " + p for p in spec["pops"]}
    transfers = {t["name"]: "Transfer " + t["name"] for t in spec.get("transfers", [])}
    outcome, data0 = classify(lambda: at.ProjectData.from_spreadsheet(at.ProjectData.new(fw, np.array(spec["years"], dtype=float), pops=pops, transfers=transfers).to_spreadsheet(), fw))
    if outcome != "accepted":
        R.bad("blank-databook-reads-back", "C18:blank-databook-does-not-read-back[%s]" % (where(data0) if outcome == "internal" else "dedicated"), {"error": str(data0)[:300]})
        return False
    R.ok("blank-databook-reads-back")
    # filled with valid numbers through the file path: builds and runs
    data = gen.build_data(spec, fw)
    ss = data.to_spreadsheet()

    def load_and_run():
        P = at.Project(framework=fw, databook=ss, do_run=False, sim_start=spec["settings"]["start"], sim_end=spec["settings"]["end"], sim_dt=spec["settings"]["dt"])
        return P, P.run_sim(P.parsets[0])

    outcome, out = classify(load_and_run)
    R.count("accepted_frameworks_run")
    if outcome != "accepted":
        if type(out).__name__ == "BadInitialization":
            R.count("bad_initialization_runs")
            return True
        R.bad("accepted-framework-runs", "C18:accepted-framework-does-not-run[%s]" % (where(out) if outcome == "internal" else type(out).__name__), {"error": "%s: %s" % (type(out).__name__, str(out)[:300]), "junction_status": spec["meta"].get("junction_status")})
        return False
    P, res = out
    view = ref.View(res)
    if res.check_for_nans(verbose=False) and not view.ill_posed_junctions() and simcase.first_bad([p.vals for p in view.pars.values() if not simcase._is_output_only(p)]) is None:
        R.bad("accepted-framework-runs", "C18:accepted-framework-runs-with-NaN", {})
    else:
        R.ok("accepted-framework-runs")
    return True


def run_case(case):
    import atomica as at
    import openpyxl
    import sciris as sc

    R = ref.Recs()
    if case["kind"] == "valid":
        ok = run_valid(case, R)
        return {"records": R.records(), "stats": R.stats, "nontrivial": bool(ok), "sample": simprop.sample_of(case["spec"])}
    spec = case["spec"]
    rng = np.random.default_rng(case["seed"])
    mname = case["mutation"]
    parent_wb = gen.framework_workbook(spec)
    if case["kind"] == "framework":
        verdict, fn = [(v, f) for n, v, f in FW_MUTATIONS if n == mname][0]
        p_out, p_fw = classify(lambda: gen.load_framework(gen.workbook_bytes(parent_wb)))
        if p_out != "accepted":
            R.count("parent_not_accepted")
            return {"records": R.records(), "stats": R.stats, "nontrivial": False}
        wb = gen.framework_workbook(spec)
        applied = fn(spec, wb, rng)
        if not applied:
            R.count("mutation_not_applicable[%s]" % mname)
            return {"records": R.records(), "stats": R.stats, "nontrivial": False}
        R.count("applied[%s]" % mname)
        outcome, payload = classify(lambda: gen.load_framework(gen.workbook_bytes(wb)))
        ok = judge(R, mname, verdict, outcome, payload, "framework")
        if ok and verdict == "accept":
            # and it still runs
            fw2 = payload
            o2, out = classify(lambda: gen.build_project(spec, fw=fw2).run_sim())
            if o2 == "internal" and type(out).__name__ != "BadInitialization":
                R.bad("accepted-framework-runs", "C18:accepted-mutant-does-not-run[%s]{%s}" % (where(out), mname), {"error": str(out)[:300]})
            else:
                R.ok("accepted-framework-runs")
        return {"records": R.records(), "stats": R.stats, "nontrivial": bool(verdict == "reject"), "sample": {"mutation": mname, "verdict": verdict, "outcome": outcome, "message": str(payload)[:160] if outcome != "accepted" else None}}

    fw = gen.load_framework(gen.workbook_bytes(parent_wb))
    data = gen.build_data(spec, fw)
    if case["kind"] == "databook":
        verdict, fn = [(v, f) for n, v, f in DB_MUTATIONS if n == mname][0]
        ss = data.to_spreadsheet()

        def load(ssx):
            return at.Project(framework=fw, databook=ssx, do_run=False)

        p_out, _ = classify(lambda: load(ss))
        if p_out != "accepted":
            R.count("parent_not_accepted")
            return {"records": R.records(), "stats": R.stats, "nontrivial": False}
        wb = editable_workbook(ss)
        applied = fn(spec, wb, rng, fw)
        if not applied:
            R.count("mutation_not_applicable[%s]" % mname)
            return {"records": R.records(), "stats": R.stats, "nontrivial": False}
        R.count("applied[%s]" % mname)
        f = io.BytesIO()
        wb.save(f)
        ss2 = sc.Spreadsheet(io.BytesIO(f.getvalue()))
        outcome, payload = classify(lambda: load(ss2))
        judge(R, mname, verdict, outcome, payload, "databook")
        return {"records": R.records(), "stats": R.stats, "nontrivial": bool(verdict == "reject"), "sample": {"mutation": mname, "verdict": verdict, "outcome": outcome, "message": str(payload)[:160] if outcome != "accepted" else None}}

    ps = case["progspec"]
    if ps is None:
        return {"records": R.records(), "stats": {"no_progspec": 1}, "nontrivial": False}
    verdict, fn = [(v, f) for n, v, f in PB_MUTATIONS if n == mname][0]
    data.validate(fw)
    pset = gen.build_progset(ps, fw, data)
    ss = pset.to_spreadsheet()

    def loadp(ssx):
        P = at.Project(framework=fw, databook=data, do_run=False)
        return P.load_progbook(ssx)

    p_out, pe = classify(lambda: loadp(ss))
    if p_out != "accepted":
        R.count("parent_not_accepted")
        R.count("parent_not_accepted[%s]" % str(pe)[:60])
        return {"records": R.records(), "stats": R.stats, "nontrivial": False}
    wb = editable_workbook(ss)
    applied = fn(spec, wb, rng, ps)
    if not applied:
        R.count("mutation_not_applicable[%s]" % mname)
        return {"records": R.records(), "stats": R.stats, "nontrivial": False}
    R.count("applied[%s]" % mname)
    f = io.BytesIO()
    wb.save(f)
    ss2 = sc.Spreadsheet(io.BytesIO(f.getvalue()))
    outcome, payload = classify(lambda: loadp(ss2))
    judge(R, mname, verdict, outcome, payload, "progbook")
    return {"records": R.records(), "stats": R.stats, "nontrivial": bool(verdict == "reject"), "sample": {"mutation": mname, "verdict": verdict, "outcome": outcome, "message": str(payload)[:160] if outcome != "accepted" else None}}

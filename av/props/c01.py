"""C01 - people are conserved: stocks change only by recorded flows."""

import numpy as np

from av import ref, simcase
from av.props import simprop

MANIFEST_ENTRY = {
    "category": "exploration",
    "technique": "offline conservation checker over recorded runs (invariant on every compartment/step of the Result) on generated hostile workloads, generated and shipped (corpus) models under perturbation, with and without program sets",
    "text": "Every compartment of every simulated step of hundreds (quick) to tens of thousands (thorough) of generated models is checked against x[t+1] = x[t] + inflows - outflows, junction in = out and emptiness, sinks/sources one-sided, and the global total changing only by births. Held means: no counter-example among the executions produced; the evidence lists which compartment kinds, link kinds and value classes were actually reached. Every 8th case is a model shipped with the repository (49 library / fixture framework-databook(-program book) combinations and 18 fixture frameworks with a generated databook: several population types, interactions, derivative parameters, hand-made junction and duration-group layouts) run under perturbation: other step sizes and horizons, calibration factors from mild to hostile, program books switched on at arbitrary years with scaled budgets. About a third of the generated runs carry a generated program set (program-driven rates, numbers and junction proportions, boundary outcomes of exactly 0). A junction that receives nobody must emit exactly zero flows whatever its proportions (idle-junction monitor). A quarter of the plain junctions have proportions typed with six decimals (sums within 1e-6 of 1, not exactly 1). The Compartments sheet is written in reversed order for a quarter of the frameworks; integral grids are handed over as integers in 60% of such cases.",
    "note": "Trusts numpy and the harness' reading of the Result (links' source/dest/parameter). Domain restriction of the property (ill-posed junctions) is recognised from recorded proportions; non-finite function values are excluded as non-finite inputs.",
}

META = {
    "level": "exploration",
    "rule": "cases = random ModelSpecs (ordinary/source/sink/junction/residual-junction/timed compartments, cyclic transition graphs, 1-3 populations with transfers, function parameters, hostile value classes, 12 step sizes) written to xlsx, loaded by the real ProjectFramework/ProjectData and simulated by the real Model; a case is non-trivial when some flow is strictly positive and there are >= 2 time points; distinct = distinct spec fingerprints",
    "deciding_counters": ["balance_steps_with_flow"],
    "assumptions": ["runs in which a plain junction receives people while its proportions sum to <= 0 are outside the property's domain (counted; checked to be flagged by NaN)", "runs whose parameter functions evaluate to NaN/inf are outside 'finite inputs' (counted)", "tolerance 1e-9 relative to max(1, stock, next stock, inflow, outflow)"],
    "case_timeout": 120,
}

make_case = simprop.make_case_for(1)


def count(tier, seed):
    return simprop.SIZES[tier]


def run_case(case):
    R = ref.Recs()
    spec = case.get("spec")
    try:
        P, result, view = simcase.simulate_case(case, R)
    except simcase.Excluded as e:
        return {"records": R.records(), "stats": R.stats, "nontrivial": False, "excluded": e.reason}
    ref.check_conservation(view, R)
    nontrivial = view.T >= 2 and any(np.any(l["vals"][:-1] > 0) for l in view.links)
    for f in simprop.features(view):
        R.count("feature[%s]" % f)
    return {"records": R.records(), "stats": R.stats, "nontrivial": bool(nontrivial), "sample": simprop.sample_of_case(case)}

"""C03 - documented unit conversion on an exact dt grid; independent recomputation reproduces each step."""

import math

import numpy as np

from av import gen, ref, simcase
from av.props import simprop

MANIFEST_ENTRY = {
    "category": "exploration",
    "technique": "reference-model monitor: one-step-ahead recomputation of every flow and stock from the recorded state by an independent implementation of the documented conversion rules, plus a pure-function check of the time grid over a dense (start, end, dt) lattice",
    "text": "(a) ProjectSettings is driven over a lattice of starts x step sizes x spans (and random triples, including non-representable steps and spans the step does not divide): tvec[k] = start + k*dt, last point = first grid point >= requested end, Model.t identical, re-assigning sim_end idempotent. (b) For every generated model and the library models, every flow at every step is recomputed from the recorded parameter values and stocks with an independent implementation of the documented per-unit conversion, number disaggregation, rescaling above 1, per-bin handling in timed compartments, junction splitting; the next stock is recomputed from stock + flows. By induction over steps this is the statement that an independent re-implementation reproduces the trajectories, without letting rounding drift in stiff runs masquerade as a violation. About a third of the generated runs carry a generated program set (program-driven rates, numbers and junction proportions, boundary outcomes of exactly 0). The grid is also reached through update_time_vector in four argument forms from three other previous grids and by moving the start year alone (update_time_vector(start=...), the sim_start setter) to off-grid values, and must equal the grid of fresh settings. Integral (start, end, step) triples are handed to the project as integers in 60% of such cases.",
    "note": "The reference takes recorded parameter values as inputs (C06 checks those) and the state at index 0 (C07). rtol 1e-8 as stated by the property.",
}

META = {
    "level": "exploration",
    "rule": "two case kinds: 'grid' = batches of (start, end, dt) triples checked against the grid definition; 'model' = random ModelSpecs (all unit kinds x timescales x 12 step sizes, shared and multiple parameters per link, functions, transfers, junctions, timed groups) and library models whose every flow/stock is recomputed one step ahead; a model case is non-trivial when flows of >= 2 distinct unit kinds are positive; distinct = spec / batch fingerprints",
    "deciding_counters": ["grid_triples", "flow_steps[rate]", "flow_steps[number]", "flow_steps[duration]", "flow_steps[probability]"],
    "assumptions": ["'k steps up to rounding' means |(end-start)/dt - k| <= 1e-9*max(1,k)", "one-step-ahead comparison from the recorded state (free-running drift is not a verdict)"],
    "case_timeout": 300,
}

STARTS = [2000.0, 2000.5, 2017.25, 1999.9, 0.0]
DTS = [1.0, 0.5, 0.25, 0.2, 0.1, 0.05, 1 / 12, 1 / 52, 1 / 365, 0.3, 0.7, 1 / 3, 1 / 7, 1 / 24, 2.0, 0.125, 0.01, 1 / 6, 0.15, 0.35]
LIBRARY = ["sir", "tb_simple", "tb_simple_dyn", "udt", "udt_dyn", "usdt", "hypertension", "hypertension_dyn", "hiv", "hiv_dyn", "diabetes", "cervicalcancer", "service", "dt", "tb"]

N_GRID = {"quick": 48, "thorough": 480}
N_MODEL = {"quick": 560, "thorough": 20000}


def count(tier, seed):
    return N_GRID[tier] + len(LIBRARY) + N_MODEL[tier]


def make_case(tier, seed, index):
    if index < N_GRID[tier]:
        rng = gen.rng_for(seed, 3, index)
        triples = []
        # lattice part: this batch takes a slice of starts x dts x spans
        for s in STARTS:
            for dt in DTS:
                k = int(rng.integers(1, 400))
                triples.append([s, s + k * dt, dt])  # end on the grid (up to rounding)
                triples.append([s, s + (k - float(rng.uniform(0.02, 0.98))) * dt, dt])  # end off the grid
                triples.append([s, float(np.round(s + rng.uniform(0.5, 40), 1)), dt])  # "human" end year
        for _ in range(60):
            s = float(_c(rng, STARTS)) + float(_c(rng, [0, 0, 0.1, 1 / 3]))
            dt = float(10 ** rng.uniform(-2.6, 0.3))
            triples.append([s, s + float(rng.uniform(0.01, 30)), dt])
        return {"kind": "grid", "triples": triples}
    index -= N_GRID[tier]
    if index < len(LIBRARY):
        return {"kind": "library", "name": LIBRARY[index], "dt": [0.25, 1 / 12, 0.5][seed % 3] if tier == "quick" else None}
    index -= len(LIBRARY)
    rng = gen.rng_for(seed, 3, 100000 + index)
    pf = {"p_function": 0.4}
    if tier == "thorough":
        pf["steps"] = (3, 60)
    pf["p_targetable"] = 0.5
    spec = gen.gen_spec(rng, pf)
    rng2 = gen.rng_for(seed, 3, 500000 + index)
    return {"kind": "generated", "spec": spec, "progspec": gen.gen_progspec(rng2, spec) if rng2.random() < 0.35 else None}


def _c(rng, seq):
    return seq[int(rng.integers(0, len(seq)))]


def expected_steps(start, end, dt):
    n = (end - start) / dt
    k = round(n)
    if abs(n - k) <= 1e-9 * max(1.0, abs(k)):
        return int(k)
    return int(math.ceil(n))


def check_grid(case, R):
    import atomica as at

    for start, end, dt in case["triples"]:
        R.count("grid_triples")
        s = at.ProjectSettings(sim_start=start, sim_end=end, sim_dt=dt)
        tv = np.array(s.tvec, dtype=float)
        n = expected_steps(start, end, dt)
        regime = "on-grid" if abs((end - start) / dt - round((end - start) / dt)) <= 1e-9 * max(1.0, abs(round((end - start) / dt))) else "off-grid"
        wit = {"start": start, "end": end, "dt": dt, "expected_steps": n, "got_points": int(len(tv)), "first": tv[:3].tolist(), "last": tv[-2:].tolist(), "sim_end": float(s.sim_end)}
        if len(tv) - 1 != n:
            R.bad("grid-length", "C03:grid-length[%s]" % regime, wit)
            continue
        R.ok("grid-length")
        exp = start + np.arange(n + 1) * dt
        if np.any(np.abs(tv - exp) > 1e-9):
            R.bad("grid-points", "C03:grid-points-not-start+k*dt[%s]" % regime, wit)
            continue
        R.ok("grid-points")
        if n >= 1 and np.any(np.abs(np.diff(tv) - dt) > 1e-9):
            R.bad("grid-step", "C03:grid-step!=dt[%s]" % regime, wit)
        else:
            R.ok("grid-step")
        # first grid point at or after the requested end
        if not (tv[-1] >= end - 1e-9 * max(1, abs(end)) and (n == 0 or tv[-2] < end - 1e-9 * max(1, abs(end)) * 0 - 0)):
            if tv[-1] < end - 1e-9 * max(1, abs(end)):
                R.bad("grid-end", "C03:grid-ends-before-requested-end[%s]" % regime, wit)
        # idempotence of re-assigning the end
        e0 = s.sim_end
        s.sim_end = s.sim_end
        if abs(s.sim_end - e0) > 1e-9:
            wit["sim_end_after_reassign"] = float(s.sim_end)
            R.bad("sim_end-idempotent", "C03:sim_end-setter-not-idempotent", wit)
        else:
            R.ok("sim_end-idempotent")
        if abs(s.sim_dt - dt) > 0 or abs(s.sim_start - start) > 0:
            R.bad("settings-echo", "C03:settings-changed-start-or-dt", wit)
        # the same grid must result when an existing settings object (on some other grid) is updated in one call, with all three
        # or only some of the arguments: the requested end is aligned to the *new* grid only
        for prev in ((2000.0, 2035.0, 1.0), (1990.0, 2020.3, 0.25), (start, end + 3.7, 0.3)):
            for form in ("start+end+dt", "end+dt", "end then dt", "dt then end"):
                s3 = at.ProjectSettings(sim_start=prev[0] if form == "start+end+dt" else start, sim_end=prev[1], sim_dt=prev[2])
                try:
                    if form == "start+end+dt":
                        s3.update_time_vector(start=start, end=end, dt=dt)
                    elif form == "end+dt":
                        s3.update_time_vector(end=end, dt=dt)
                    elif form == "end then dt":
                        s3.update_time_vector(end=end)
                        s3.update_time_vector(dt=dt)
                        s3.update_time_vector(end=end)  # the end has to be requested again: the first call aligned it to the old grid
                    else:
                        s3.update_time_vector(dt=dt)
                        s3.update_time_vector(end=end)
                except Exception as e:
                    R.bad("update_time_vector=fresh-settings", "C03:update_time_vector-raises[%s]" % type(e).__name__, {"form": form, "previous": prev, "start": start, "end": end, "dt": dt, "error": str(e)[:200]})
                    continue
                tv3 = np.array(s3.tvec, dtype=float)
                R.count("update_time_vector_forms_checked")
                if len(tv3) != len(exp) or np.any(np.abs(tv3 - exp) > 1e-9):
                    R.bad("update_time_vector=fresh-settings", "C03:update_time_vector-grid-differs-from-fresh-settings[%s,%s]" % (form, regime), {"form": form, "previous": prev, "start": start, "end": end, "dt": dt, "points": int(len(tv3)), "expected_points": int(len(exp)), "last": tv3[-2:].tolist(), "expected_last": exp[-2:].tolist()})
                else:
                    R.ok("update_time_vector=fresh-settings")
        # moving the start year alone (update_time_vector(start=...), the sim_start setter - Project.load_databook does that): the grid
        # is start + k*dt and still reaches the end year that is in force
        for off in (0.3 * dt, 1.7, 10.2):
            for how in ("update_time_vector", "setter"):
                s4 = at.ProjectSettings(sim_start=start - off, sim_end=end, sim_dt=dt)
                if how == "setter":
                    s4.sim_start = start
                else:
                    s4.update_time_vector(start=start)
                e4 = float(s4.sim_end)  # the end year in force (aligned to the previous grid, >= the requested one)
                tv4 = np.array(s4.tvec, dtype=float)
                R.count("start_moves_checked")
                tol4 = 1e-9 * max(1.0, abs(e4))
                okk = len(tv4) >= 1 and abs(tv4[0] - start) <= 1e-9 and (len(tv4) < 2 or np.all(np.abs(np.diff(tv4) - dt) <= 1e-9)) and tv4[-1] >= e4 - tol4 and tv4[-1] >= end - tol4 and (len(tv4) < 2 or tv4[-2] < e4 + tol4 - 0 * dt)
                if okk and len(tv4) >= 2 and tv4[-2] >= e4 - tol4 and abs(tv4[-2] - e4) > tol4:
                    okk = False  # overshoots: the previous point already reached the end year
                if not okk:
                    R.bad("grid-after-start-move", "C03:grid-after-moving-the-start-year[%s,%s]" % (how, regime), {"previous_start": start - off, "start": start, "end_requested": end, "end_in_force": e4, "dt": dt, "points": int(len(tv4)), "first": tv4[:2].tolist(), "last": tv4[-2:].tolist()})
                else:
                    R.ok("grid-after-start-move")
        # changing dt afterwards re-aligns the end
        s2 = at.ProjectSettings(sim_start=start, sim_end=end, sim_dt=1.0)
        s2.sim_dt = dt
        tv2 = np.array(s2.tvec, dtype=float)
        if len(tv2) >= 2 and np.any(np.abs(np.diff(tv2) - dt) > 1e-9):
            R.bad("grid-step-after-dt-change", "C03:grid-step!=dt[after sim_dt setter]", {"start": start, "end": end, "dt": dt, "points": len(tv2), "first": tv2[:3].tolist()})
        else:
            R.ok("grid-step-after-dt-change")


def run_case(case):
    R = ref.Recs()
    if case["kind"] == "grid":
        check_grid(case, R)
        return {"records": R.records(), "stats": R.stats, "nontrivial": True, "sample": {"kind": "grid", "triples": case["triples"][:6]}}
    if case["kind"] == "library":
        import atomica as at

        P = at.Project(framework=at.LIBRARY_PATH / ("%s_framework.xlsx" % case["name"]), databook=at.LIBRARY_PATH / ("%s_databook.xlsx" % case["name"]), do_run=False)
        if case.get("dt"):
            P.settings.update_time_vector(dt=case["dt"])
        progset = instr = None
        pb = at.LIBRARY_PATH / ("%s_progbook.xlsx" % case["name"])
        if pb.exists() and case["name"] not in ("tb",):
            progset = P.load_progbook(pb)
            instr = at.ProgramInstructions(start_year=P.settings.sim_start + 3)
        result = P.run_sim(P.parsets[0], progset=progset, progset_instructions=instr)
        view = ref.View(result)
        R.count("library_runs")
        sample = {"kind": "library", "name": case["name"], "dt": P.settings.sim_dt, "programs": progset is not None}
    else:
        spec = case["spec"]
        try:
            P, result, view = simcase.simulate_case(case, R)
        except simcase.Excluded as e:
            return {"records": R.records(), "stats": R.stats, "nontrivial": False, "excluded": e.reason}
        sample = simprop.sample_of(spec)
    # Model.t == settings.tvec, Model.dt == dt
    tv = np.array(P.settings.tvec, dtype=float)
    if len(tv) != len(view.t) or np.any(tv != view.t) or view.dt != P.settings.sim_dt:
        R.bad("model-grid=settings-grid", "C03:model-grid-differs-from-settings", {"settings": tv[:3].tolist(), "model": view.t[:3].tolist()})
    else:
        R.ok("model-grid=settings-grid")
    if len(tv) >= 2 and np.any(np.abs(np.diff(view.t) - view.dt) > 1e-9):
        R.bad("model-grid-step", "C03:model-grid-step!=dt", {"dt": view.dt, "t": view.t[:4].tolist()})
    ref.check_flows(view, R, prefix="C03", rtol=1e-8)
    ref.check_junction_split(view, R, prefix="C03")
    ref.check_conservation(view, R, prefix="C03")
    kinds = [k for k in ("rate", "probability", "duration", "number") if R.stats.get("flow_steps[%s]" % k, 0) > 0]
    for f in simprop.features(view):
        R.count("feature[%s]" % f)
    return {"records": R.records(), "stats": R.stats, "nontrivial": len(kinds) >= 2, "sample": sample}

"""C20 - reported aggregates depend only on what was asked for and add up."""

import itertools
import os
import sys
import tempfile

import numpy as np

from av import digest, gen, ref, simcase
from av.props import simprop

MANIFEST_ENTRY = {
    "category": "exploration",
    "technique": "paired-call monitor on the real PlotData / cascade functions over one Result (permutations, subsets and supersets of the requested outputs and populations; explicit and default aggregation), additivity / betweenness oracles, cascade monotonicity and data-sum oracles, and a bit-exact digest of the Result around every plotting / export call with an audit hook on file writes",
    "text": "For each simulated Result a pool of outputs (compartments, characteristics, parameters of every unit, flow selectors, named aggregations of numbers and of rates, formulas) and population selections (single, lists, named aggregates, 'total') is drawn; the value reported for a fixed (population, output) must be bit-identical across permutations, subsets and supersets of the request, with default and with explicit aggregation methods. Sum aggregates must equal the sum of their parts, averages and weighted averages must lie between the smallest and largest part, the total of a number quantity must equal the sum over populations, and these statements must survive interpolate() and time_aggregate() onto random bins. Cascade stage values from get_cascade_vals must be non-increasing along every valid cascade (framework-defined and ad hoc) at every time, get_cascade_data must equal the sum of the databook entries of each stage's constituents, and the Result's arrays must be unchanged after PlotData, plot_series, plot_bars, plot_cascade, export_results, export_raw and Result.plot, with files written only at the requested export path. The request-independence comparison also runs with time aggregation (bins in the constructor or time_aggregate() afterwards, default and explicit method) and with interpolate() afterwards; the output pool contains all-outflow / all-inflow selectors that resolve to several links. Cascade data are requested for ascending, descending, shuffled and single-year lists and compared point by point. 40% of the request-independence comparisons put a second result with other population sizes into the same call. Weighted averages are also taken over transition parameters (weights = sizes of the compartments they act on): between the parts, or undefined where all weights are zero. Numerically identical bin edges typed as floats, Python ints and numpy integers must give identical values. Half of the results are also run with a generated program set: coverage reports, PlotData.programs and exports leave that result unchanged and repeat identically. The total of a formula of number quantities over populations equals the sum of its per-population values (default method).",
    "note": "'Valid cascade' is restricted to duplicate-free constituent lists. Matplotlib runs with the Agg backend.",
}

META = {
    "level": "exploration",
    "rule": "cases = one generated Result (2-3 populations, nested cascade with shared constituents, time-specific databook entries) x ~25 paired calls; non-trivial = a pair of calls whose output lists differ and mix units was compared; distinct = spec fingerprints",
    "deciding_counters": ["paired_calls_compared", "mixed_unit_pairs", "cascade_stage_checks", "result_digest_checks"],
    "assumptions": ["ill-posed junction runs and non-finite parameter values are outside the domain"],
    "case_timeout": 600,
}

N = {"quick": 160, "thorough": 4000}
_AUD = {"on": False, "events": [], "installed": False}


def _hook(event, args):
    if _AUD["on"] and event == "open":
        mode = args[1] if len(args) > 1 else ""
        if isinstance(mode, str) and any(c in mode for c in "wax+"):
            _AUD["events"].append(str(args[0]))


def count(tier, seed):
    return N[tier]


def make_case(tier, seed, index):
    rng = gen.rng_for(seed, 20, index)
    pf = {"n_pops": (2, 3), "n_ord": (3, 6), "p_function": 0.4, "steps": (6, 20), "dts": [1.0, 0.5, 0.25, 0.2, 1 / 12], "p_timed": 0.2, "n_junctions": (0, 1), "value_classes": ["mild", "mild", "binding_limits", "empty"]}
    spec = gen.gen_spec(rng, pf)
    ords = [c["name"] for c in spec["comps"] if c["kind"] == "ord"]
    # nested cascade whose stages share constituents: [c0..ck], [c0..cj], [c0]
    order = [str(x) for x in rng.permutation(ords)]
    k1 = len(order)
    k2 = int(rng.integers(1, k1 + 1))
    k3 = int(rng.integers(1, k2 + 1))
    stages = [["All", ", ".join(order[:k1])], ["Some", ", ".join(order[:k2])], ["Few", ", ".join(order[:k3])]]
    spec["cascades"] = [{"name": "main", "stages": stages}, {"name": "viachar", "stages": [["Everyone", "alive"], ["Part", ", ".join(order[:k2])]]}]
    # time-specific databook entries for compartments
    years = spec["years"]
    for c in ords:
        for pop in spec["pops"]:
            ys = sorted(float(y) for y in rng.choice(years, size=int(rng.integers(1, min(4, len(years)) + 1)), replace=False))
            if float(np.floor(spec["settings"]["start"])) not in ys and rng.random() < 0.7:
                ys = sorted(set(ys) | {float(years[0])})
            spec["values"][c][pop] = {"t": ys, "v": [gen.sample_popsize(rng, "mild") for _ in ys]}
    ps = None
    if index % 2 == 0:
        # (half of the results are also run with a generated program set: coverage reports and program plots are reports too)
        for p_ in spec["pars"]:
            if not p_["timed"] and p_["name"].startswith("q") and p_["format"] in ("rate", "probability") and rng.random() < 0.5:
                p_["targetable"] = True
        ps = gen.gen_progspec(rng, spec)
    return {"kind": "generated", "spec": spec, "seed": [seed, 20, index, 1], "progspec": ps}


def series_of(pd_, pop, output, result="res"):
    for s in pd_.series:
        if s.pop == pop and s.output == output and (s.result == result or result is None):
            return np.array(s.vals, dtype=float, copy=True)
    return None


def run_case(case):
    import matplotlib

    matplotlib.use("agg")
    import matplotlib.pyplot as plt
    import atomica as at

    R = ref.Recs()
    if not _AUD["installed"]:
        sys.addaudithook(_hook)
        _AUD["installed"] = True
    spec = case["spec"]
    rng = np.random.default_rng(case["seed"])
    try:
        P, result, view = simcase.simulate(spec, R)
    except simcase.Excluded as e:
        return {"records": R.records(), "stats": R.stats, "nontrivial": False, "excluded": e.reason}
    result.name = "res"
    base = digest.result_arrays(result)
    pops = spec["pops"]
    ords = [c["name"] for c in spec["comps"] if c["kind"] == "ord"]
    fw = P.framework
    numbers = list(ords) + ["alive"]
    rates = [p["name"] for p in spec["pars"] if p["format"] in ("rate", "probability") and not p["timed"]]
    others = [p["name"] for p in spec["pars"] if p["format"] in ("number", "duration", None) and not p["timed"] and not p["name"].startswith("out")]
    flows = []
    for a, b, pn in spec["trans"]:
        if a in ords and b in ords:
            flows.append("%s:%s" % (a, b))
        if pn != ">" and a in ords:
            flows.append("%s:flow" % pn.split(",")[0].strip())
    flows = list(dict.fromkeys(flows))[:4]
    if ords:
        flows += ["%s:" % ords[0], ":%s" % ords[-1]]  # all outflows of / all inflows to a compartment (several links per population)
        flows = list(dict.fromkeys(flows))
    named = []
    if len(ords) >= 2:
        named.append({"n_sum": [ords[0], ords[1]]})
    if len(rates) >= 2:
        named.append({"r_avg": [rates[0], rates[1]]})
    if len(ords) >= 2:
        named.append({"frm": "%s+2*%s" % (ords[0], ords[1])})
    pool = [x for x in numbers + rates[:3] + others[:2] + flows] + named
    popsel = list(pops) + [{"tot": list(pops)}] + ([{"two": pops[:2]}] if len(pops) >= 2 else [])

    def key_of(o):
        return list(o.keys())[0] if isinstance(o, dict) else o

    # a second result of the same project (other population sizes and rates): what is reported for one result must not depend
    # on which other results are part of the same request
    result2 = None
    try:
        import sciris as sc

        ps2 = sc.dcp(P.parsets[0])
        for par in list(ps2.pars.values()):
            for j, pop_ in enumerate(par.pops):
                if par.name in ords:
                    par.y_factor[pop_] = par.y_factor[pop_] * [0.4, 2.5, 1.3][j % 3]
                elif par.name in [p["name"] for p in spec["pars"] if p["format"] in ("rate", "probability", "number") and not p["timed"]]:
                    par.y_factor[pop_] = par.y_factor[pop_] * [1.8, 0.5][j % 2]
        result2 = P.run_sim(ps2, result_name="res2")
        result2.name = "res2"
        R.count("second_results_available")
    except Exception as e:
        R.count("second_result_not_available[%s]" % type(e).__name__)

    def call(outputs, psel, results=None, **kw):
        return at.PlotData(result if results is None else results, outputs=list(outputs), pops=list(psel), **kw)

    # ---- 1. independence of the other requested outputs / populations / order -----------------------------
    mixed = 0
    for trial in range(10):
        target = pool[int(rng.integers(0, len(pool)))]
        tpop = popsel[int(rng.integers(0, len(popsel)))]
        kw = {}
        if rng.random() < 0.3:
            kw["output_aggregation"] = str(rng.choice(["sum", "average"]))
        if rng.random() < 0.3:
            kw["pop_aggregation"] = str(rng.choice(["sum", "average", "weighted"]))
        # ... and of the time treatment: aggregation onto bins (default or explicit method) in the constructor or
        # afterwards, interpolation afterwards
        post = None
        u_t = rng.random()
        if view.T >= 4 and u_t < 0.45:
            t0_, t1_ = float(view.t[0]), float(view.t[-1])
            nb_ = int(rng.integers(1, 4))
            edges_ = [t0_] + sorted(float(x) for x in rng.uniform(t0_, t1_, size=nb_ - 1)) + [t1_]
            edges_ = sorted(set(edges_))
            method_ = [None, None, "integrate", "average"][int(rng.integers(0, 4))]
            if len(edges_) >= 2:
                if u_t < 0.25:
                    kw["t_bins"] = edges_
                    kw["time_aggregation"] = method_
                    R.count("time_treatment[t_bins in constructor,%s]" % method_)
                else:
                    post = ("time_aggregate", edges_, method_)
                    R.count("time_treatment[time_aggregate afterwards,%s]" % method_)
        elif view.T >= 3 and u_t < 0.6:
            post = ("interpolate", np.sort(rng.uniform(float(view.t[0]), float(view.t[-1]), size=5)))
            R.count("time_treatment[interpolate afterwards]")

        def treat(pd_):
            if post is None:
                return pd_
            if post[0] == "interpolate":
                return pd_.interpolate(post[1])
            return pd_.time_aggregate(post[1], time_aggregation=post[2])

        try:
            ref_pd = treat(call([target], [tpop], **kw))
        except Exception as e:
            R.count("plotdata_reference_call_failed[%s]" % type(e).__name__)
            continue
        refv = series_of(ref_pd, key_of(tpop), key_of(target))
        for variant in range(2):
            k = int(rng.integers(1, min(5, len(pool)) + 1))
            extra = [pool[int(i)] for i in rng.choice(len(pool), size=k, replace=False)]
            extra = [e for e in extra if key_of(e) != key_of(target)]
            outs = extra + [target]
            perm = rng.permutation(len(outs))
            outs = [outs[int(i)] for i in perm]
            pk = int(rng.integers(0, len(popsel)))
            psel = [popsel[int(i)] for i in rng.choice(len(popsel), size=pk, replace=False) if key_of(popsel[int(i)]) != key_of(tpop)] + [tpop]
            psel = [psel[int(i)] for i in rng.permutation(len(psel))]
            several = None
            if result2 is not None and rng.random() < 0.4:
                several = [result, result2] if rng.random() < 0.5 else [result2, result]
                R.count("paired_calls_with_a_second_result_in_the_request")
            try:
                pd2 = treat(call(outs, psel, results=several, **kw))
            except Exception as e:
                R.count("plotdata_variant_call_failed[%s]" % type(e).__name__)
                continue
            v2 = series_of(pd2, key_of(tpop), key_of(target))
            R.count("paired_calls_compared")
            units = set()
            for o in outs:
                units.add("rate" if key_of(o) in rates or key_of(o) == "r_avg" else "number")
            if len(units) > 1:
                mixed += 1
                R.count("mixed_unit_pairs")
            same = v2 is not None and refv is not None and v2.shape == refv.shape and np.all((v2 == refv) | (np.isnan(v2) & np.isnan(refv)))
            if not same:
                first = key_of(outs[0])
                tk = "aggregated-output" if isinstance(target, dict) and not isinstance(list(target.values())[0], str) else ("formula" if isinstance(target, dict) else "plain")
                pkind = "aggregated-pop" if isinstance(tpop, dict) else "single-pop"
                tt = "t_bins" if "t_bins" in kw else (post[0] if post is not None else "no-time-treatment")
                if several is not None:
                    tt += ",several-results"
                R.bad("value-independent-of-other-requests", "C20:value-depends-on-other-requests[%s,%s,%s,%s]" % (tk, pkind, "explicit" if (set(kw) - {"t_bins", "time_aggregation"}) else "default", tt), {"time_treatment": None if post is None else [post[0], [float(x) for x in post[1]]] + list(post[2:]), "target": target, "pop": tpop, "alone": None if refv is None else refv[:4].tolist(), "in_call": None if v2 is None else v2[:4].tolist(), "outputs": outs, "pops": psel, "kwargs": kw})
            else:
                R.ok("value-independent-of-other-requests")

    # ---- 1b. numerically identical bin edges give identical values, however they are typed (Python ints, numpy ints, floats)
    lo_i, hi_i = int(np.ceil(float(view.t[0]))), int(np.floor(float(view.t[-1])))
    if hi_i - lo_i >= 1:
        ints = list(range(lo_i, hi_i + 1))
        if len(ints) > 3:
            ints = [ints[0], ints[len(ints) // 2], ints[-1]]
        for trial in range(3):
            target = pool[int(rng.integers(0, len(pool)))]
            tpop = popsel[int(rng.integers(0, len(popsel)))]
            method_ = [None, "integrate", "average"][int(rng.integers(0, 3))]
            try:
                vf = series_of(call([target], [tpop], t_bins=[float(x) for x in ints], time_aggregation=method_), key_of(tpop), key_of(target))
                vi = series_of(call([target], [tpop], t_bins=list(ints), time_aggregation=method_), key_of(tpop), key_of(target))
                vn = series_of(call([target], [tpop]).time_aggregate(np.array(ints, dtype=np.int64), time_aggregation=method_), key_of(tpop), key_of(target))
            except Exception as e:
                R.count("integer_bin_call_failed[%s]" % type(e).__name__)
                continue
            R.count("integer_typed_bin_edges_compared")
            same = all(v is not None and vf is not None and v.shape == vf.shape and np.all((v == vf) | (np.isnan(v) & np.isnan(vf))) for v in (vi, vn))
            if not same:
                R.bad("value-independent-of-other-requests", "C20:value-depends-on-the-type-of-the-bin-edges[%s]" % method_, {"target": target, "pop": tpop, "edges": ints, "float_edges": None if vf is None else vf[:4].tolist(), "int_list": None if vi is None else vi[:4].tolist(), "int_array": None if vn is None else vn[:4].tolist()})
            else:
                R.ok("value-independent-of-other-requests")

    # ---- 2. additivity / betweenness ---------------------------------------------------------------------
    if len(ords) >= 2:
        a, b = ords[0], ords[1]
        for p in pops:
            pa = series_of(call([a], [p]), p, a)
            pb = series_of(call([b], [p]), p, b)
            ps_ = series_of(call([{"s": [a, b]}], [p], output_aggregation="sum"), p, "s")
            pav = series_of(call([{"s": [a, b]}], [p], output_aggregation="average"), p, "s")
            pw = series_of(call([{"s": [a, b]}], [p], output_aggregation="weighted"), p, "s")
            R.count("additivity_checks")
            if not np.allclose(ps_, pa + pb, rtol=1e-12, atol=0):
                R.bad("sum=sum-of-parts", "C20:output-sum-differs-from-parts", {"pop": p, "outputs": [a, b]})
            else:
                R.ok("sum=sum-of-parts")
            lo, hi = np.minimum(pa, pb), np.maximum(pa, pb)
            for nm, v in (("average", pav), ("weighted", pw)):
                fin = np.isfinite(v)
                if np.any(v[fin] < lo[fin] - 1e-9 * np.maximum(1, np.abs(lo[fin]))) or np.any(v[fin] > hi[fin] + 1e-9 * np.maximum(1, np.abs(hi[fin]))):
                    R.bad("average-between-parts", "C20:%s-outside-min-max-of-parts[outputs]" % nm, {"pop": p, "outputs": [a, b], "value": v[:4].tolist(), "parts": [pa[:4].tolist(), pb[:4].tolist()]})
                else:
                    R.ok("average-between-parts")
    # ... and for transition parameters, whose weights are the sizes of the compartments they act on (not their own values):
    # where those compartments are all empty the weighted average is undefined (NaN), never a number outside the parts
    linkrates = [r for r in rates if any(r in [x.strip() for x in str(pn).split(",")] for a_, b_, pn in spec["trans"] if a_ in ords)]
    if len(linkrates) >= 2:
        ra, rb = linkrates[0], linkrates[1]
        for p in pops:
            try:
                pa = series_of(call([ra], [p]), p, ra)
                pb = series_of(call([rb], [p]), p, rb)
                pw = series_of(call([{"s": [ra, rb]}], [p], output_aggregation="weighted"), p, "s")
            except Exception as e:
                R.count("weighted_rate_call_failed[%s]" % type(e).__name__)
                continue
            if pa is None or pb is None or pw is None:
                continue
            R.count("weighted_averages_of_transition_parameters")
            R.count("weighted_average_points_with_all_weights_zero", int(np.sum(~np.isfinite(pw))))
            lo, hi = np.minimum(pa, pb), np.maximum(pa, pb)
            fin = np.isfinite(pw) & np.isfinite(lo) & np.isfinite(hi)
            if np.any(pw[fin] < lo[fin] - 1e-9 * np.maximum(1, np.abs(lo[fin]))) or np.any(pw[fin] > hi[fin] + 1e-9 * np.maximum(1, np.abs(hi[fin]))):
                i_ = int(np.argmax(fin & ((pw < lo - 1e-9 * np.maximum(1, np.abs(lo))) | (pw > hi + 1e-9 * np.maximum(1, np.abs(hi))))))
                R.bad("average-between-parts", "C20:weighted-outside-min-max-of-parts[transition-parameters]", {"pop": p, "outputs": [ra, rb], "index": i_, "value": float(pw[i_]), "parts": [float(pa[i_]), float(pb[i_])]})
            else:
                R.ok("average-between-parts")
    # a formula of number quantities is a number quantity: with the default method its value for a group of populations is the sum
    # of its values for the members, like the named aggregation of the same outputs
    if len(ords) >= 2:
        frm = {"fsum": "%s+%s" % (ords[0], ords[1])}
        try:
            per_f = [series_of(call([frm], [p]), p, "fsum") for p in pops]
            tot_f = series_of(call([frm], [{"Total": list(pops)}]), "Total", "fsum")
            tot_n = series_of(call([{"fsum": [ords[0], ords[1]]}], [{"Total": list(pops)}]), "Total", "fsum")
            R.count("additivity_checks")
            if not (np.allclose(tot_f, np.sum(per_f, axis=0), rtol=1e-12, atol=0) and np.allclose(tot_f, tot_n, rtol=1e-12, atol=0)):
                R.bad("total=sum-over-populations", "C20:total-of-a-formula-of-numbers-differs-from-population-sum[default]", {"formula": frm, "total": tot_f[:3].tolist(), "sum_of_members": np.sum(per_f, axis=0)[:3].tolist(), "named_aggregation": tot_n[:3].tolist()})
            else:
                R.ok("total=sum-over-populations")
        except Exception as e:
            R.count("total_call_failed[%s]" % type(e).__name__)
    for q in [ords[0], "alive"] + flows[:1]:
        try:
            per = [series_of(call([q], [p]), p, q) for p in pops]
            tot = series_of(call([q], ["total"] if False else [{"Total": list(pops)}]), "Total", q)
            tot2 = series_of(at.PlotData(result, outputs=[q], pops="total"), "Total", q)
        except Exception as e:
            R.count("total_call_failed[%s]" % type(e).__name__)
            continue
        R.count("additivity_checks")
        if not (np.allclose(tot, np.sum(per, axis=0), rtol=1e-12, atol=0) and np.allclose(tot2, np.sum(per, axis=0), rtol=1e-12, atol=0)):
            R.bad("total=sum-over-populations", "C20:total-of-number-quantity-differs-from-population-sum", {"output": q})
        else:
            R.ok("total=sum-over-populations")
    if rates:
        q = rates[0]
        per = [series_of(call([q], [p]), p, q) for p in pops]
        for agg in ("average", "weighted"):
            v = series_of(call([q], [{"T": list(pops)}], pop_aggregation=agg), "T", q)
            lo, hi = np.min(per, axis=0), np.max(per, axis=0)
            fin = np.isfinite(v) & np.isfinite(lo)
            if np.any(v[fin] < lo[fin] - 1e-9 * np.maximum(1, np.abs(lo[fin]))) or np.any(v[fin] > hi[fin] + 1e-9 * np.maximum(1, np.abs(hi[fin]))):
                R.bad("average-between-parts", "C20:%s-outside-min-max-of-parts[pops]" % agg, {"output": q, "value": v[:4].tolist()})
            else:
                R.ok("average-between-parts")
    # interpolation and time aggregation commute with additivity
    if len(ords) >= 2:
        a, b = ords[0], ords[1]
        p = pops[0]
        t = view.t
        newt = np.sort(rng.uniform(t[0], t[-1], size=5))
        try:
            sa = call([a], [p]).interpolate(newt)
            sb = call([b], [p]).interpolate(newt)
            ss = call([{"s": [a, b]}], [p], output_aggregation="sum").interpolate(newt)
            va, vb, vs = series_of(sa, p, a), series_of(sb, p, b), series_of(ss, p, "s")
            if not np.allclose(vs, va + vb, rtol=1e-9, atol=1e-12, equal_nan=True):
                R.bad("interpolate-commutes", "C20:interpolated-sum-differs-from-parts", {"t": newt.tolist()})
            else:
                R.ok("interpolate-commutes")
            edges = np.sort(rng.choice(t, size=min(3, len(t)), replace=False))
            if len(edges) >= 2 and edges[-1] > edges[0]:
                ta = call([a], [p], t_bins=edges, time_aggregation="integrate")
                tb = call([b], [p], t_bins=edges, time_aggregation="integrate")
                ts = call([{"s": [a, b]}], [p], output_aggregation="sum", t_bins=edges, time_aggregation="integrate")
                va, vb, vs = series_of(ta, p, a), series_of(tb, p, b), series_of(ts, p, "s")
                if not np.allclose(vs, va + vb, rtol=1e-9, atol=1e-9, equal_nan=True):
                    R.bad("time-aggregate-commutes", "C20:time-aggregated-sum-differs-from-parts", {"bins": edges.tolist()})
                else:
                    R.ok("time-aggregate-commutes")
        except Exception as e:
            R.count("interp_call_failed[%s]" % type(e).__name__)

    # ---- 3. cascades ----------------------------------------------------------------------------------------
    import atomica.cascade as C

    adhoc = [ords[0]] if len(ords) < 2 else None
    cascades = ["main", "viachar", 0]
    if len(ords) >= 2:
        cascades.append({"A": ["alive"], "B": [ords[0], ords[1]], "C": [ords[0]]})
        cascades.append(["alive", ords[0]])
    for casc in cascades:
        for psel in [None, pops[0], list(pops)]:
            try:
                vals, tt = C.get_cascade_vals(result, casc, pops=psel)
            except Exception as e:
                R.count("cascade_call_failed[%s]" % type(e).__name__)
                continue
            stages = list(vals.values())
            R.count("cascade_stage_checks", len(stages) - 1)
            okc = True
            for i in range(len(stages) - 1):
                x, y = np.asarray(stages[i], dtype=float), np.asarray(stages[i + 1], dtype=float)
                if np.any(y > x * (1 + 1e-9) + 1e-9):
                    j = int(np.argmax(y > x * (1 + 1e-9) + 1e-9))
                    R.bad("cascade-non-increasing", "C20:cascade-stage-increases[%s]" % ("framework" if isinstance(casc, (str, int)) else "adhoc"), {"cascade": casc, "pops": psel, "index": j, "stage": i, "values": [float(x[j]), float(y[j])]})
                    okc = False
                    break
            if okc:
                R.ok("cascade-non-increasing")
    # cascade data = sum of the databook entries of each stage's constituents
    data = P.data
    for casc in ["main", {"A": [ords[0]] + ords[1:2], "B": [ords[0]]}]:
        for psel in [None, pops[0]]:
            yy_ = np.array(spec["years"][:4], dtype=float)
            for yrs in [None, yy_[:3], yy_[:3][::-1].copy(), yy_[rng.permutation(len(yy_))], yy_[:1]]:  # ascending, descending, shuffled, single
                try:
                    got, tt = C.get_cascade_data(data, fw, casc, pops=psel, year=yrs)
                except Exception as e:
                    R.count("cascade_data_call_failed[%s]" % type(e).__name__)
                    continue
                _, cdict, _ = C.sanitize_cascade(fw, casc)
                plist = list(pops) if psel is None else [psel]
                tt = np.asarray(tt, dtype=float)
                bad = None
                for stage, const in cdict.items():
                    exp = np.zeros(tt.shape)
                    for code in const:
                        for pop in plist:
                            ts = data.tdve[code].ts[pop] if code in data.tdve and pop in data.tdve[code].ts else None
                            v = np.full(tt.shape, np.nan)
                            if ts is not None:
                                for a_, b_ in zip(ts.t, ts.vals):
                                    v[tt == a_] = b_
                            exp = exp + v
                    g = np.asarray(got[stage], dtype=float)
                    R.count("cascade_data_stage_checks")
                    if not np.all(np.isclose(g, exp, rtol=1e-12, atol=0, equal_nan=True)):
                        bad = {"cascade": casc, "stage": stage, "pops": psel, "got": g.tolist(), "expected": exp.tolist(), "constituents": const}
                        break
                if bad:
                    pos = list(cdict.keys()).index(bad["stage"])
                    R.bad("cascade-data=sum-of-databook-entries", "C20:cascade-data-differs[stage%d]" % min(pos, 2), bad)
                else:
                    R.ok("cascade-data=sum-of-databook-entries")

    # ---- 4. plotting and exporting never modify the result --------------------------------------------------------
    meta0 = digest.snapshot([result.name, result.pop_labels, result.model.program_instructions, result.model.dt, [p.name for p in result.model.pops]])

    def check_digest(label):
        R.count("result_digest_checks")
        d = digest.compare_arrays(base, digest.result_arrays(result))
        meta1 = digest.snapshot([result.name, result.pop_labels, result.model.program_instructions, result.model.dt, [p.name for p in result.model.pops]])
        if meta1 != meta0:
            R.bad("plots-do-not-modify-result", "C20:result-metadata-modified-by[%s]" % label, {"difference": digest.first_difference(meta0, meta1)})
            return False
        if d:
            R.bad("plots-do-not-modify-result", "C20:result-modified-by[%s]" % label, {"first_differences": [list(map(str, x)) for x in d[:3]]})
            return False
        R.ok("plots-do-not-modify-result")
        return True

    check_digest("PlotData")
    td = tempfile.mkdtemp(prefix="av_c20_")
    cwd = os.getcwd()
    os.chdir(td)
    try:
        ops = []
        pdx = call(pool[:4], popsel[: len(pops)])
        ops.append(("plot_series", lambda: at.plot_series(pdx)))
        ops.append(("plot_bars", lambda: at.plot_bars(call([ords[0], ords[-1]], list(pops), t_bins=[view.t[0], view.t[-1]]))))
        ops.append(("plot_cascade", lambda: at.plot_cascade(result, "main", pops="all", year=float(view.t[-1]), data=P.data)))
        ops.append(("export_raw", lambda: result.export_raw(os.path.join(td, "raw.xlsx"))))
        ops.append(("export_results", lambda: at.export_results([result], os.path.join(td, "out.xlsx"))))
        ops.append(("accumulate", lambda: call([ords[0]], [pops[0]], accumulate="integrate")))
        ops.append(("time_aggregate", lambda: call(pool[:3], list(pops), t_bins=2)))
        order = rng.permutation(len(ops))
        for i in order:
            name, fn = ops[int(i)]
            _AUD["events"] = []
            _AUD["on"] = True
            try:
                fn()
            except Exception as e:
                R.count("plot_call_failed[%s:%s]" % (name, type(e).__name__))
            finally:
                _AUD["on"] = False
                plt.close("all")
            check_digest(name)
            allowed = {os.path.join(td, "raw.xlsx"), os.path.join(td, "out.xlsx")}
            stray = [e for e in _AUD["events"] if e not in allowed and not e.startswith(tempfile.gettempdir() + os.sep + "tmp") and "fontlist" not in e and ".cache" not in e and "matplotlib" not in e]
            stray = [e for e in stray if os.path.dirname(os.path.abspath(e)) == td or e.startswith(cwd)]
            if stray:
                R.bad("writes-only-to-requested-path", "C20:unrequested-file-written[%s]" % name, {"files": stray[:5]})
            else:
                R.ok("writes-only-to-requested-path")
    finally:
        os.chdir(cwd)
        import shutil

        shutil.rmtree(td, ignore_errors=True)
    # ---- 5. ... nor do coverage reports, program plots and exports of a result that was run with programs ------------------------
    if case.get("progspec"):
        try:
            pset_ = gen.build_progset(case["progspec"], P.framework, P.data)
            instr_ = gen.build_instructions(case["progspec"])
            res_p = P.run_sim(P.parsets[0], progset=pset_, progset_instructions=instr_, result_name="withprogs")
        except Exception as e:
            res_p = None
            R.count("program_run_failed[%s]" % type(e).__name__)
        if res_p is not None:
            R.count("results_with_programs")
            base_p = {k_: np.array(v_, copy=True) for k_, v_ in digest.result_arrays(res_p).items()}
            td2 = tempfile.mkdtemp(prefix="av_c20p_")
            reports = [("get_coverage[%s]" % q_, (lambda q_=q_: res_p.get_coverage(q_))) for q_ in ("capacity", "eligible", "fraction", "number")]
            reports += [("get_alloc", lambda: res_p.get_alloc()), ("export_results", lambda: at.export_results([res_p], os.path.join(td2, "p.xlsx")))]
            for qn in ("spending", "coverage_fraction", "coverage_number", "coverage_eligible", "coverage_capacity"):
                reports.append(("PlotData.programs[%s]" % qn, (lambda qn=qn: at.PlotData.programs(res_p, quantity=qn))))
            first_answers = {}
            try:
                for rep in range(2):
                    for name, fn in reports:
                        try:
                            out_ = fn()
                        except Exception as e:
                            R.count("program_report_failed[%s:%s]" % (name.split("[")[0], type(e).__name__))
                            continue
                        d_ = digest.compare_arrays(base_p, digest.result_arrays(res_p))
                        R.count("result_digest_checks")
                        if d_:
                            R.bad("plots-do-not-modify-result", "C20:result-modified-by[%s]" % name, {"first_differences": [list(map(str, x)) for x in d_[:3]]})
                            raise StopIteration
                        R.ok("plots-do-not-modify-result")
                        if isinstance(out_, dict):
                            ans = {str(k_): np.array(v_, dtype=float, copy=True) for k_, v_ in out_.items()}
                            if name in first_answers:
                                same_ = all(k_ in ans and ans[k_].shape == v_.shape and np.all((ans[k_] == v_) | (np.isnan(ans[k_]) & np.isnan(v_))) for k_, v_ in first_answers[name].items())
                                if not same_:
                                    R.bad("value-independent-of-other-requests", "C20:repeated-report-differs[%s]" % name, {"report": name})
                                else:
                                    R.ok("value-independent-of-other-requests")
                            first_answers.setdefault(name, ans)
            except StopIteration:
                pass
            finally:
                plt.close("all")
                shutil.rmtree(td2, ignore_errors=True)
    sample = dict(simprop.sample_of(spec))
    sample["cascade"] = spec["cascades"][0]["stages"]
    sample["output_pool"] = [key_of(o) for o in pool]
    return {"records": R.records(), "stats": R.stats, "nontrivial": mixed > 0, "sample": sample}

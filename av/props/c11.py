"""C11 - program coverage is a bounded, monotone function of spending."""

import numpy as np

from av import attach, gen, ref

MANIFEST_ENTRY = {
    "category": "exploration",
    "technique": "runtime contracts (post-conditions) on every real call of Program.get_prop_covered / get_capacity and paired-call relational monitors (monotonicity, dt-independence, overwrite precedence) on the real ProgramSet methods over generated programs and instructions",
    "text": "Generated programs (one-off and continuous, optional per-year or absolute capacity constraints, optional saturation, time-varying stepped series, zero eligible, tiny unit costs, huge or zero spending) are pushed through the real ProgramSet.get_alloc / get_capacities / get_prop_coverage and Program.get_capacity / get_prop_covered. Each call is checked against the stated bounds (in [0,1], <= capacity/eligible, <= saturation, equality when unconstrained and < 1, 1 or the saturation level when nobody is eligible); pairs of calls differing only in spending / unit cost check monotonicity; one-off capacity/dt is compared across step sizes; random combinations of spending, capacity and coverage overwrites check the stated precedence and the stepped interpolation. The same post-conditions are attached to the calls the integrator makes in whole-model runs with library program sets. Overwrites are TimeSeries or plain numbers (including 0, 0.0 and numpy scalars); Program.get_capacity is also called directly with the caller's own spending array, which must be unchanged afterwards and give the same answer twice. The expected program type is derived from the unit-cost units as entered; a third of the programs have these units switched after a first use.",
    "note": "An absolute capacity constraint on a one-off program is per step by documentation and is excluded from the dt-independence clause.",
}

META = {
    "level": "exploration",
    "rule": "cases = batches of 150 random programs x (bound checks, 2 monotone pairs, 5 step sizes, 1 random overwrite combination) plus library model runs with contracts attached; non-trivial batch = contains a pair whose coverages differ and at least one each of capped-at-1, saturated, capacity-constrained and zero-eligible programs; distinct = batch fingerprints",
    "deciding_counters": ["coverage_calls_checked", "monotone_pairs_with_different_coverage", "precedence_checks"],
    "assumptions": ["spending >= 0, unit cost > 0, saturation in (0, inf) as quantified by the property"],
    "case_timeout": 300,
}

N_BATCH = {"quick": 60, "thorough": 1500}
LIB = ["sir", "tb", "hypertension", "udt", "usdt", "hiv", "diabetes", "cervicalcancer", "combined"]
DTS = [1.0, 0.5, 0.25, 1 / 12, 1 / 52]

_BASE = {}


def base_objects():
    if not _BASE:
        import atomica as at

        P = at.Project(framework=at.LIBRARY_PATH / "sir_framework.xlsx", databook=at.LIBRARY_PATH / "sir_databook.xlsx", do_run=False)
        _BASE["P"] = P
    return _BASE["P"]


def count(tier, seed):
    return N_BATCH[tier] + len(LIB)


def make_case(tier, seed, index):
    if index < N_BATCH[tier]:
        return {"kind": "batch", "seed": [seed, 11, index], "n": 150}
    return {"kind": "library", "name": LIB[index - N_BATCH[tier]]}


def rand_series(rng, lo, hi, log=True, p_zero=0.0, years=(2015, 2030)):
    import atomica as at

    def val():
        if rng.random() < p_zero:
            return 0.0
        return float(10 ** rng.uniform(np.log10(lo), np.log10(hi))) if log else float(rng.uniform(lo, hi))

    ts = at.TimeSeries()
    if rng.random() < 0.5:
        ts.insert(None, val())
    else:
        k = int(rng.integers(1, 4))
        for y in sorted(rng.choice(np.arange(years[0], years[1]), size=k, replace=False)):
            ts.insert(float(y) + float(rng.choice([0, 0, 0.5, 0.25])), val())
    return ts


def step_interp(ts, t):
    """Independent stepped ('previous') interpolation with constant extrapolation."""
    t = np.atleast_1d(np.asarray(t, dtype=float))
    if not ts.t:
        return np.full(t.shape, ts.assumption if ts.assumption is not None else np.nan)
    tt = np.asarray(ts.t, dtype=float)
    vv = np.asarray(ts.vals, dtype=float)
    out = np.empty(t.shape)
    for i, x in enumerate(t):
        k = np.searchsorted(tt, x, side="right") - 1
        out[i] = vv[0] if k < 0 else vv[k]
    return out


def make_program(rng, name="prog"):
    import atomica as at

    prog = at.Program(name=name, label=name, target_pops=["adults"], target_comps=["sus"])
    one_off = rng.random() < 0.5
    prog.unit_cost = rand_series(rng, 1e-3, 1e4)
    prog.unit_cost.units = "$/person (one-off)" if one_off else "$/person/year"
    prog.spend_data = rand_series(rng, 1.0, 1e9, p_zero=0.1)
    prog.spend_data.units = "$/year"
    if rng.random() < 0.4:
        prog.capacity_constraint = rand_series(rng, 1.0, 1e6)
        prog.capacity_constraint.units = "people/year" if rng.random() < 0.6 else "people"
    if rng.random() < 0.4:
        prog.saturation = rand_series(rng, 0.05, 3.0)
        prog.saturation.units = "N.A."
    return prog


def check_cov_post(R, prog, tvec, capacity, eligible, cov, origin):
    """Post-condition of Program.get_prop_covered."""
    R.count("coverage_calls_checked")
    tvec = np.atleast_1d(np.asarray(tvec, dtype=float))
    capacity = np.atleast_1d(np.asarray(capacity, dtype=float))
    eligible = np.atleast_1d(np.asarray(eligible, dtype=float))
    cov = np.atleast_1d(np.asarray(cov, dtype=float))
    if not (np.all(np.isfinite(capacity)) and np.all(np.isfinite(eligible)) and np.all(capacity >= 0) and np.all(eligible >= 0)):
        R.count("coverage_calls_outside_domain")
        return
    sat = prog.saturation.has_data
    tag = "saturated" if sat else "unsaturated"
    wit = {"origin": origin, "capacity": capacity[:4].tolist(), "eligible": eligible[:4].tolist(), "coverage": cov[:4].tolist(), "saturation": step_interp(prog.saturation, tvec)[:4].tolist() if sat else None}
    if not np.all(np.isfinite(cov)) or np.any(cov < 0) or np.any(cov > 1):
        R.bad("coverage-in-[0,1]", "C11:coverage-outside-[0,1][%s]" % tag, wit)
        return
    R.ok("coverage-in-[0,1]")
    with np.errstate(all="ignore"):
        ratio = np.where(eligible > 0, capacity / np.where(eligible > 0, eligible, 1.0), np.inf)
    if np.any(cov > ratio * (1 + 1e-12) + 1e-15):
        R.bad("coverage<=capacity/eligible", "C11:coverage-exceeds-capacity[%s]" % tag, wit)
    else:
        R.ok("coverage<=capacity/eligible")
    if sat:
        s = step_interp(prog.saturation, tvec)
        if np.any(cov > s * (1 + 1e-12)):
            R.bad("coverage<=saturation", "C11:coverage-exceeds-saturation", wit)
        else:
            R.ok("coverage<=saturation")
        z = eligible == 0
        if np.any(z):
            R.count("zero_eligible_calls")
            exp = np.minimum(s, 1.0)
            if np.any(np.abs(cov[z] - exp[z] * np.ones_like(cov)[z]) > 1e-12):
                R.bad("zero-eligible", "C11:zero-eligible-not-saturation-level", wit)
            else:
                R.ok("zero-eligible")
        R.count("saturated_calls")
    else:
        exp = np.minimum(ratio, 1.0)
        if np.any(np.abs(cov - exp) > 1e-12 * np.maximum(1.0, exp)):
            R.bad("coverage=min(1,capacity/eligible)", "C11:unsaturated-coverage-not-capacity/eligible", wit)
        else:
            R.ok("coverage=min(1,capacity/eligible)")
        if np.any(eligible == 0):
            R.count("zero_eligible_calls")
        if np.any(ratio >= 1):
            R.count("capped_at_one_calls")


def run_batch(case, R):
    import atomica as at

    rng = np.random.default_rng(case["seed"])
    P = base_objects()
    samples = []
    flags = set()
    for i in range(case["n"]):
        prog = make_program(rng, "prog%d" % i)
        one_off = "/year" not in prog.unit_cost.units  # (the program's type as entered: a one-off unit cost is per person, not per person per year)
        pset = at.ProgramSet(framework=P.framework, data=P.data, tvec=np.arange(2015, 2031.0))
        pset.programs[prog.name] = prog
        dt = float(rng.choice(DTS))
        tvec = np.arange(2016.0, 2024.0, dt)[: int(rng.integers(2, 40))]
        elig = np.where(rng.random(tvec.shape) < 0.1, 0.0, 10 ** rng.uniform(-3, 7, size=tvec.shape))
        # --- capacity: definition -----------------------------------------------------------------
        caps = pset.get_capacities(tvec, dt)[prog.name]
        spend = step_interp(prog.spend_data, tvec)
        uc = step_interp(prog.unit_cost, tvec)
        exp_cap = spend * (dt if one_off else 1.0) / uc
        constrained = prog.capacity_constraint.has_data
        if constrained:
            cc = step_interp(prog.capacity_constraint, tvec) * (dt if "/year" in prog.capacity_constraint.units else 1.0)
            exp_cap = np.minimum(exp_cap, cc)
            flags.add("constrained")
        if not np.allclose(caps, exp_cap, rtol=1e-12, atol=0):
            R.bad("capacity=spend/unitcost", "C11:capacity-definition[%s,%s]" % ("one-off" if one_off else "continuous", "constrained" if constrained else "free"), {"dt": dt, "got": caps[:4].tolist(), "expected": exp_cap[:4].tolist(), "spend": spend[:4].tolist(), "unit_cost": uc[:4].tolist()})
        else:
            R.ok("capacity=spend/unitcost")
        # --- the type of a program is a function of its unit cost's units *now*: after a use, the units are switched ---------------
        if rng.random() < 0.3:
            prog2 = prog if rng.random() < 0.5 else __import__("sciris").dcp(prog)
            if rng.random() < 0.5:
                prog2.unit_cost.units = "$/person/year" if one_off else "$/person (one-off)"
            else:
                uc_new = at.TimeSeries(units="$/person/year" if one_off else "$/person (one-off)")
                if prog.unit_cost.assumption is not None:
                    uc_new.insert(None, prog.unit_cost.assumption)
                for t_, v_ in zip(prog.unit_cost.t, prog.unit_cost.vals):
                    uc_new.insert(t_, v_)
                prog2.unit_cost = uc_new
            caps2 = np.asarray(prog2.get_capacity(tvec, np.array(spend, dtype=float, copy=True), dt), dtype=float)
            exp2 = spend * (dt if not one_off else 1.0) / uc
            if constrained:
                exp2 = np.minimum(exp2, cc)
            R.count("programs_whose_type_is_switched_after_a_use")
            if not np.allclose(caps2, exp2, rtol=1e-12, atol=0):
                R.bad("capacity=spend/unitcost", "C11:capacity-definition-after-switching-the-unit-cost-units[%s->%s]" % ("one-off" if one_off else "continuous", "continuous" if one_off else "one-off"), {"dt": dt, "got": caps2[:4].tolist(), "expected": exp2[:4].tolist()})
            else:
                R.ok("capacity=spend/unitcost")
            # (switch back for the checks below)
            if prog2 is prog:
                prog.unit_cost.units = "$/person (one-off)" if one_off else "$/person/year"
        # --- the program-level call with the caller's own array: the same answer, twice, and the array is left alone ------------
        mine = np.array(spend, dtype=float, copy=True)
        keep = mine.copy()
        try:
            c_a = np.array(prog.get_capacity(tvec, mine, dt), dtype=float, copy=True)
            c_b = np.array(prog.get_capacity(tvec, mine, dt), dtype=float, copy=True)
            R.count("direct_get_capacity_calls", 2)
            if not np.array_equal(mine, keep):
                R.bad("capacity=spend/unitcost", "C11:get_capacity-modifies-the-callers-spending[%s]" % ("one-off" if one_off else "continuous"), {"dt": dt, "before": keep[:4].tolist(), "after": mine[:4].tolist()})
            elif not np.allclose(c_a, exp_cap, rtol=1e-12, atol=0) or not np.array_equal(c_a, c_b):
                R.bad("capacity=spend/unitcost", "C11:get_capacity-differs-between-identical-calls-or-from-the-definition[%s]" % ("one-off" if one_off else "continuous"), {"dt": dt, "first": c_a[:4].tolist(), "second": c_b[:4].tolist(), "expected": exp_cap[:4].tolist()})
            else:
                R.ok("capacity=spend/unitcost")
        except Exception as e:
            R.count("direct_get_capacity_failed[%s]" % type(e).__name__)
        # --- coverage post-conditions ---------------------------------------------------------------
        cov = pset.get_prop_coverage(tvec, dt, {prog.name: caps}, {prog.name: elig})[prog.name]
        check_cov_post(R, prog, tvec, caps, elig, cov, "get_prop_coverage")
        cov1 = prog.get_prop_covered(tvec[3 % len(tvec)], caps[3 % len(tvec)], elig[3 % len(tvec)])
        check_cov_post(R, prog, tvec[3 % len(tvec)], caps[3 % len(tvec)], elig[3 % len(tvec)], cov1, "get_prop_covered(scalar)")
        if prog.saturation.has_data:
            flags.add("saturated")
        if np.any(elig == 0):
            flags.add("zero-eligible")
        if np.any(cov >= 1):
            flags.add("capped")
        # --- monotone in spending, antitone in unit cost ----------------------------------------------
        for which in ("spend", "unit_cost"):
            p2 = at.utils.sc.dcp(prog) if hasattr(at.utils, "sc") else None
            import sciris as sc

            p2 = sc.dcp(prog)
            f = float(rng.choice([1.0, 1.0000001, 1.5, 10.0, 1e3]))
            ts = p2.spend_data if which == "spend" else p2.unit_cost
            if ts.assumption is not None:
                ts.assumption *= f
            ts.vals = [v * f for v in ts.vals]
            ps2 = at.ProgramSet(framework=P.framework, data=P.data, tvec=pset.tvec)
            ps2.programs[p2.name] = p2
            caps2 = ps2.get_capacities(tvec, dt)[p2.name]
            cov2 = ps2.get_prop_coverage(tvec, dt, {p2.name: caps2}, {p2.name: elig})[p2.name]
            R.count("monotone_pairs")
            if np.any(cov2 != cov):
                R.count("monotone_pairs_with_different_coverage")
            if which == "spend":
                bad = cov2 < cov - 1e-15
            else:
                bad = cov2 > cov + 1e-15
            if np.any(bad):
                j = int(np.argmax(bad))
                R.bad("monotone", "C11:not-monotone-in-%s[%s]" % (which, "saturated" if prog.saturation.has_data else "unsaturated"), {"factor": f, "coverage": float(cov[j]), "coverage_after": float(cov2[j]), "capacity": float(caps[j]), "capacity_after": float(caps2[j]), "eligible": float(elig[j])})
            else:
                R.ok("monotone")
        # --- one-off programs: annual reach independent of dt -----------------------------------------
        if one_off and not (constrained and "/year" not in prog.capacity_constraint.units):
            t0 = np.array([2018.0, 2021.5])
            ref_rate = None
            for d in DTS:
                c = pset.get_capacities(t0, d)[prog.name] / d
                if ref_rate is None:
                    ref_rate = c
                elif not np.allclose(c, ref_rate, rtol=1e-12):
                    R.bad("one-off-annual-reach-independent-of-dt", "C11:one-off-capacity-depends-on-dt", {"dt": d, "annual": c.tolist(), "annual_at_dt=1": ref_rate.tolist()})
                    break
            else:
                R.ok("one-off-annual-reach-independent-of-dt")
                R.count("dt_independence_checks")
        # --- overwrite precedence ----------------------------------------------------------------------
        ow = {}
        kinds = [k for k in ("alloc", "capacity", "coverage") if rng.random() < 0.6]
        for k in kinds:
            if k == "alloc":
                ow[k] = {prog.name: rand_series(rng, 1.0, 1e8, p_zero=0.1, years=(2016, 2023))}
            elif k == "capacity":
                ow[k] = {prog.name: rand_series(rng, 1.0, 1e6, years=(2016, 2023))}
            else:
                ow[k] = {prog.name: rand_series(rng, 0.01, 3.0, log=False, years=(2016, 2023))}
        # an overwrite may also be given as a plain number (in force from the start year), including exactly zero
        given = {k: dict(v) for k, v in ow.items()}
        for k in kinds:
            if rng.random() < 0.4:
                hi_ = {"alloc": 1e6, "capacity": 1e4, "coverage": 1.0}[k]
                val = [0.0, 0, float(np.float64(0.0)), float(rng.uniform(0, hi_)), float(rng.uniform(0, hi_))][int(rng.integers(0, 5))]
                given[k] = {prog.name: val}
                ow[k] = {prog.name: at.TimeSeries(t=2016.0, vals=float(val))}  # what it means
                R.count("scalar_overwrites[%s]" % ("zero" if val == 0 else "positive"))
        instr = at.ProgramInstructions(start_year=2016.0, alloc=given.get("alloc"), capacity=given.get("capacity"), coverage=given.get("coverage"))
        R.count("precedence_checks")
        alloc = pset.get_alloc(tvec, instr)[prog.name]
        exp_alloc = step_interp(ow["alloc"][prog.name], tvec) if "alloc" in ow else spend
        caps_i = pset.get_capacities(tvec, dt, instr)[prog.name]
        if "capacity" in ow:
            exp_caps = step_interp(ow["capacity"][prog.name], tvec) * (dt if one_off else 1.0)
        else:
            exp_caps = exp_alloc * (dt if one_off else 1.0) / uc
            if constrained:
                exp_caps = np.minimum(exp_caps, cc)
        cov_i = pset.get_prop_coverage(tvec, dt, {prog.name: caps_i}, {prog.name: elig}, instr)[prog.name]
        tagk = "+".join(kinds) if kinds else "none"
        if not np.allclose(alloc, exp_alloc, rtol=1e-12, atol=0):
            R.bad("overwrite-precedence", "C11:alloc-overwrite[%s]" % tagk, {"got": alloc[:4].tolist(), "expected": exp_alloc[:4].tolist()})
        elif not np.allclose(caps_i, exp_caps, rtol=1e-12, atol=0):
            R.bad("overwrite-precedence", "C11:capacity-overwrite[%s]" % tagk, {"got": caps_i[:4].tolist(), "expected": exp_caps[:4].tolist(), "dt": dt, "one_off": one_off})
        else:
            if "coverage" in ow:
                exp_cov = np.minimum(step_interp(ow["coverage"][prog.name], tvec) * (dt if one_off else 1.0), 1.0)
                if not np.allclose(cov_i, exp_cov, rtol=1e-12, atol=0):
                    R.bad("overwrite-precedence", "C11:coverage-overwrite[%s]" % tagk, {"got": cov_i[:4].tolist(), "expected": exp_cov[:4].tolist()})
                else:
                    R.ok("overwrite-precedence")
            else:
                check_cov_post(R, prog, tvec, caps_i, elig, cov_i, "get_prop_coverage(instructions)")
                R.ok("overwrite-precedence")
        if np.any(cov_i > 1) or np.any(cov_i < 0):
            R.bad("coverage-in-[0,1]", "C11:coverage-outside-[0,1][instructions]", {"coverage": cov_i[:4].tolist()})
        if len(samples) < 2:
            samples.append({"one_off": one_off, "unit_cost": [prog.unit_cost.assumption, prog.unit_cost.t, prog.unit_cost.vals], "spend": [prog.spend_data.assumption, prog.spend_data.t, prog.spend_data.vals], "constraint": prog.capacity_constraint.units if constrained else None, "saturation": prog.saturation.assumption, "dt": dt, "overwrites": kinds})
    nontrivial = R.stats.get("monotone_pairs_with_different_coverage", 0) > 0 and {"saturated", "zero-eligible", "capped", "constrained"} <= flags
    return {"records": R.records(), "stats": R.stats, "nontrivial": bool(nontrivial), "sample": {"kind": "batch", "programs": samples}}


def run_library(case, R):
    import atomica as at
    import atomica.programs as PR

    name = case["name"]
    P = at.Project(framework=at.LIBRARY_PATH / ("%s_framework.xlsx" % name), databook=at.LIBRARY_PATH / ("%s_databook.xlsx" % name), do_run=False)
    pset = P.load_progbook(at.LIBRARY_PATH / ("%s_progbook.xlsx" % name))
    start = P.settings.sim_start + 2
    instr = at.ProgramInstructions(start_year=start)

    def post(tok, out, prog, tvec, capacity, eligible):
        check_cov_post(R, prog, tvec, capacity, eligible, out, "integrator:" + name)

    with attach.Attach() as A:
        A.wrap(PR.Program, "get_prop_covered", post=post)
        res = P.run_sim(P.parsets[0], progset=pset, progset_instructions=instr)
    R.count("library_runs")
    # reported coverage within bounds as well
    cov = res.get_coverage("fraction")
    for k, v in cov.items():
        v = np.asarray(v, dtype=float)
        v = v[np.isfinite(v)]
        if np.any(v < 0) or np.any(v > 1):
            R.bad("reported-coverage-in-[0,1]", "C11:reported-coverage-outside-[0,1]", {"program": k})
        else:
            R.ok("reported-coverage-in-[0,1]")
    return {"records": R.records(), "stats": R.stats, "nontrivial": R.stats.get("coverage_calls_checked", 0) > 0, "sample": {"kind": "library", "name": name, "programs": list(pset.programs.keys())[:6]}}


def run_case(case):
    R = ref.Recs()
    if case["kind"] == "batch":
        return run_batch(case, R)
    return run_library(case, R)

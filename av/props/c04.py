"""C04 - junctions are always empty and split their inflow by the stated proportions."""

import numpy as np

from av import attach, gen, ref, simcase
from av.props import simprop

MANIFEST_ENTRY = {
    "category": "exploration",
    "technique": "offline junction-split oracle on every recorded step plus a hooked snapshot before/after the start-up flush compared with an independent push-down through the junction DAG; generated and shipped (corpus) models",
    "text": "For every junction and step of every run the recorded outflows are compared with inflow x proportion (normalised; residual rule incl. sums above 1), the junction content is checked to be 0 at every index, and the state before and after Model.flush_junctions (hooked from the harness, with the proportions in force at that moment) is compared with an independent push of the initial junction contents through chains, fans and diamonds, total preserved. Generated workloads force initialised junctions, junction->junction chains, residual outflows, proportions that are constant / time-varying / functions of state, sums <1, =1, >1 and exact zeros; the evidence counts each regime reached. Every 8th case is a model shipped with the repository (49 library / fixture framework-databook(-program book) combinations and 18 fixture frameworks with a generated databook: several population types, interactions, derivative parameters, hand-made junction and duration-group layouts) run under perturbation: other step sizes and horizons, calibration factors from mild to hostile, program books switched on at arbitrary years with scaled budgets. About a third of the generated runs carry a generated program set (program-driven rates, numbers and junction proportions, boundary outcomes of exactly 0). Proportions that are functions of compartments / characteristics are recomputed on the pre-flush snapshot with the independent evaluator and compared with what the start-up flush used. The corpus contains junction fixtures written out for two population types (residual junction links in both). 12% of the generated junction outflow cells hold two parameters (parallel links into the same compartment).",
    "note": "Start-up snapshot uses a harness-side wrapper on Model.flush_junctions; if that internal name disappears the sub-claim is reported inconclusive and the per-step oracle (public Result surface) still decides.",
}

META = {
    "level": "exploration",
    "rule": "cases = random ModelSpecs biased to 1-4 junctions (70% initialised non-empty, 50% residual, chains allowed, members of duration groups), all value classes; non-trivial = a junction received people in some step or was initialised non-empty; distinct = spec fingerprints",
    "deciding_counters": ["junction_receiving_steps", "flush_predictions"],
    "assumptions": ["negative proportions count as 0 (a negative transition parameter produces zero flow)", "ill-posed runs (plain junction receiving people with proportions summing to <= 0) are outside the domain"],
    "case_timeout": 120,
}

PROFILE = {"n_junctions": (1, 4), "p_junction_init": 0.7, "p_residual": 0.5, "p_group_junction": 0.4, "p_timed": 0.45}
make_case = simprop.make_case_for(4, PROFILE, prefer=("junction", "tb_", "timed", "malaria", "cervical"))  # corpus draws mostly from models with junctions


def count(tier, seed):
    return simprop.SIZES[tier]


def snapshot(model):
    snap = {"comps": {}, "props": {}}
    for pop in model.pops:
        for c in pop.comps:
            bins = getattr(c, "_vals", None)
            if bins is not None and np.ndim(bins) == 2:
                snap["comps"][(pop.name, c.name)] = np.array(bins[:, 0], dtype=float, copy=True)
            else:
                snap["comps"][(pop.name, c.name)] = float(c.vals[0])
        for l in pop.links:
            if l.parameter is not None and l.parameter.units == "proportion":
                snap["props"][(pop.name, l.source.name, l.dest.name, l.parameter.name)] = float(l.parameter.vals[0])
    return snap


def predict_flush(view, pre):
    """Independent push of junction contents through the junction DAG (totals; timed destinations receive a
    uniform spread so only their totals are compared)."""
    import networkx as nx

    x = {k: (float(np.sum(v)) if isinstance(v, np.ndarray) else float(v)) for k, v in pre["comps"].items()}
    G = nx.DiGraph()
    juncs = [c for c in view.comps if c["kind"] == "junc"]
    for c in juncs:
        G.add_node(c["key"])
        for l in c["out"]:
            if l["dst"]["kind"] == "junc":
                G.add_edge(c["key"], l["dst"]["key"])
    bykey = {c["key"]: c for c in juncs}
    for key in nx.topological_sort(G):
        c = bykey[key]
        amount = x[key]
        if not amount > 0:
            continue
        props = []
        for l in c["out"]:
            if l["par"] is None:
                props.append(None)
            else:
                p = pre["props"].get((c["pop"], c["name"], l["dst"]["name"], l["par"].name))
                props.append(max(0.0, p) if p is not None and not np.isnan(p) else p)
        ps = sum(p for p in props if p is not None)
        for l, p in zip(c["out"], props):
            if c["residual_junction"]:
                if p is None:
                    share = amount * (1 - ps) if ps < 1 else 0.0
                else:
                    share = amount * p / ps if ps > 1 else amount * p
            else:
                share = amount * p / ps if ps > 0 else float("nan")
            x[l["dst"]["key"]] += share
        x[key] = 0.0
    return x


def run_case(case):
    R = ref.Recs()
    spec = case.get("spec")
    snaps = {}
    import atomica.model as M

    def pre(model):
        snaps["pre"] = snapshot(model)

    def post(tok, out, model):
        snaps["post"] = snapshot(model)

    with attach.Attach() as A:
        hooked = A.wrap(M.Model, "flush_junctions", pre=pre, post=post)
        try:
            P, result, view = simcase.simulate_case(case, R)
        except simcase.Excluded as e:
            return {"records": R.records(), "stats": R.stats, "nontrivial": False, "excluded": e.reason}
    # 1. empty at every index, in = out (from the conservation checker), 2. the split
    for c in view.comps:
        if c["kind"] == "junc":
            if np.any(c["vals"] != 0):
                i = int(np.argmax(c["vals"] != 0))
                R.bad("junction-empty", "C04:junction-not-empty", {"comp": c["key"], "index": i, "value": float(c["vals"][i])})
            else:
                R.ok("junction-empty", view.T)
            sc_ = np.maximum(1.0, np.abs(c["IN"]))
            if np.any(~(np.abs(c["IN"] - c["OUT"]) <= 1e-9 * sc_)):
                i = int(np.argmax(~(np.abs(c["IN"] - c["OUT"]) <= 1e-9 * sc_)))
                R.bad("junction-in=out", "C04:junction-in!=out[%s]" % ("residual" if c["residual_junction"] else "plain"), {"comp": c["key"], "index": i, "in": float(c["IN"][i]), "out": float(c["OUT"][i])})
            else:
                R.ok("junction-in=out", view.T)
    ref.check_junction_split(view, R, prefix="C04")
    # per-bin split inside duration groups
    for c in view.comps:
        if c["kind"] == "junc" and c["group"] and all(l["bins"] is not None for l in c["in"] + c["out"]) and c["in"]:
            try:
                Ib = np.sum([l["bins"] for l in c["in"]], axis=0)
                Ob = np.sum([l["bins"] for l in c["out"]], axis=0)
                if Ib.shape == Ob.shape:
                    if np.any(~(np.abs(Ib - Ob) <= 1e-9 * np.maximum(1.0, np.abs(Ib)))):
                        b, i = np.argwhere(~(np.abs(Ib - Ob) <= 1e-9 * np.maximum(1.0, np.abs(Ib))))[0]
                        R.bad("group-junction-per-bin", "C04:group-junction-bin-in!=out", {"comp": c["key"], "bin": int(b), "index": int(i)})
                    else:
                        R.ok("group-junction-per-bin", Ib.shape[1])
                        R.count("group_junction_bin_steps", int(np.sum(Ib.sum(axis=0) > 0)))
            except Exception:
                R.inc("group-junction-per-bin")
    # 3. start-up flush
    nontrivial = R.stats.get("junction_receiving_steps", 0) > 0
    if hooked and "pre" in snaps and "post" in snaps:
        pre_, post_ = snaps["pre"], snaps["post"]
        had = any((float(np.sum(pre_["comps"][c["key"]])) > 0) for c in view.comps if c["kind"] == "junc")
        pred = predict_flush(view, pre_)
        R.count("flush_predictions")
        if had:
            R.count("flush_with_initialised_junction")
            nontrivial = True
            if any(l["dst"]["kind"] == "junc" for c in view.comps if c["kind"] == "junc" and float(np.sum(pre_["comps"][c["key"]])) > 0 for l in c["out"]):
                R.count("flush_through_chain")
        # the proportions the flush used are the ones in force at t0: a proportion that is a function of the (pre-flush) state
        # must have been evaluated on that state, not left at its databook value
        if spec is not None and had:
            from av import feval

            fw_pars = view.fw.pars
            charac_members = {ch["name"]: ch.get("_flat") or ch["components"] for ch in spec.get("characs", [])}
            comp_names = {c["name"] for c in spec["comps"]}
            progs = case.get("progspec")
            targeted = {(co["par"], co["pop"]) for co in (progs or {}).get("covouts", [])} if progs else set()
            for (pop, src, dst, pname), used in pre_["props"].items():
                fcn = fw_pars.at[pname, "function"] if pname in fw_pars.index else None
                if not isinstance(fcn, str) or (pname, pop) in targeted or fcn.startswith(("SRC_", "TGT_")):
                    continue
                names = feval.names(fcn)
                if not names <= (comp_names | set(charac_members) | {"t", "dt", "pi"}):
                    continue  # depends on other parameters: not recomputed here (C06 covers the evaluation order)
                env = {"t": float(view.t[0]), "dt": float(view.dt)}
                for nme in names:
                    if nme in comp_names:
                        env[nme] = float(np.sum(pre_["comps"][(pop, nme)]))
                    elif nme in charac_members:
                        def _flat_members(cn, depth=0):
                            out_ = []
                            for m in charac_members[cn]:
                                out_ += _flat_members(m, depth + 1) if (m in charac_members and depth < 6) else [m]
                            return list(dict.fromkeys(out_))
                        num_ = sum(float(np.sum(pre_["comps"][(pop, m)])) for m in _flat_members(nme) if (pop, m) in pre_["comps"])
                        den_name = [ch.get("denominator") for ch in spec["characs"] if ch["name"] == nme][0]
                        if den_name:
                            den_ = sum(float(np.sum(pre_["comps"][(pop, m)])) for m in (_flat_members(den_name) if den_name in charac_members else [den_name]) if (pop, m) in pre_["comps"])
                            if not den_ > 1e-3 or num_ < 1e-3:
                                env = None  # (the 0/0 and tiny-numerator conventions of reported fractions are not reproduced here)
                                break
                            env[nme] = num_ / den_
                        else:
                            env[nme] = num_
                if env is None:
                    continue
                finfo = {}
                try:
                    val = float(feval.evaluate(feval.parse(fcn), env, strict=True, info=finfo))
                except Exception:
                    continue
                if finfo.get("fragile") or finfo.get("tie"):
                    continue  # a comparison of two sums that are equal up to the order of summation
                par = view.pars.get((pop, pname))
                if par is None or not np.isfinite(val):
                    continue
                val *= float(getattr(par, "scale_factor", 1.0))
                if par.limits is not None:
                    val = min(max(val, par.limits[0]), par.limits[1])
                R.count("flush_proportions_recomputed")
                if abs(val - used) > 1e-9 * max(1.0, abs(val)):
                    R.bad("flush-uses-proportions-in-force", "C04:flush-used-a-stale-proportion[function]", {"junction": [pop, src], "par": pname, "function": fcn, "used_by_flush": used, "value_on_pre_flush_state": val})
                else:
                    R.ok("flush-uses-proportions-in-force")
        tot_pre = sum(float(np.sum(v)) for k, v in pre_["comps"].items())
        tot_post = sum(float(np.sum(v)) for k, v in post_["comps"].items())
        if np.isfinite(tot_pre) and np.isfinite(tot_post) and abs(tot_pre - tot_post) > 1e-9 * max(1.0, abs(tot_pre)):
            R.bad("flush-preserves-total", "C04:flush-total-changed", {"before": tot_pre, "after": tot_post})
        else:
            R.ok("flush-preserves-total")
        for c in view.comps:
            k = c["key"]
            got = float(np.sum(post_["comps"][k]))
            exp = pred[k]
            res0 = float(c["vals"][0])
            if np.isnan(exp):
                continue
            sc_ = max(1.0, abs(exp), tot_pre if np.isfinite(tot_pre) else 1.0) if had else max(1.0, abs(exp))
            if abs(got - exp) > 1e-9 * max(1.0, abs(exp), abs(got)):
                R.bad("flush=push-down", "C04:flush-mismatch[%s]" % c["kind"], {"comp": k, "expected": exp, "after_flush": got, "before": float(np.sum(pre_["comps"][k])), "props": {str(kk): v for kk, v in pre_["props"].items() if kk[0] == c["pop"]}})
            elif abs(res0 - got) > 1e-9 * max(1.0, abs(got)):
                R.bad("result-index0=after-flush", "C04:result-index0-differs-from-flushed-state[%s]" % c["kind"], {"comp": k, "after_flush": got, "result0": res0})
            else:
                R.ok("flush=push-down")
    else:
        R.inc("flush=push-down")
    for f in simprop.features(view):
        R.count("feature[%s]" % f)
    return {"records": R.records(), "stats": R.stats, "nontrivial": bool(nontrivial), "sample": simprop.sample_of_case(case)}

"""C09 - interventions have no effect before they start."""

import numpy as np

from av import digest, gen, ref, simcase
from av.props import simprop

MANIFEST_ENTRY = {
    "category": "exploration",
    "technique": "paired-run history checker: the same generated model is run with and without an intervention dated Y and every output array is compared on the indices with t < Y (bit-exact), plus stop-year and end-year-extension pairs; an intervention that cannot be applied is a violation",
    "text": "Pairs: program start year Y vs a start beyond the end; spending / capacity / coverage series that state the value in force before Y and change at Y vs the series without the change; parameter scenarios whose first point is Y (linear and stepped; on data parameters, function parameters, transfers and interactions) vs no scenario; programs with a stop year vs no programs for data-driven targeted parameters after the stop; end year E vs a later end year (to 1e-12). Y is drawn on the grid, off the grid, at the first and last grid point and before the start. All compartments, flows, parameters, characteristics (and per-bin contents) are compared. A pair counts as non-trivial only if the intervention changes some output after Y. Intervention years include a class after the last simulated time (nothing may change, and applying the intervention must not fail). The end-year extension class includes runs with a parameter scenario whose later point lies after the shorter end year. Half of the scenario pairs carry, in both runs, an overwrite of the same quantity for another population (pair) from an earlier year. 40% of the overwrite series begin after the program start (the first value is in force until then); extension cases contain a parameter that switches exactly at grid times. A third of the scenario pairs run on a parameter set with stepped or pchip fallback interpolation.",
    "note": "Both runs of a pair have the same model structure (same framework, program set present in both), so bit equality is demanded; the end-year extension is compared to 1e-12 because grid values may differ in the last bit.",
}

META = {
    "level": "exploration",
    "rule": "cases = (ModelSpec, intervention kind, Y) triples; non-trivial = the intervention changes some output at t >= Y by more than 1e-6 relative; distinct = case fingerprints",
    "deciding_counters": ["pairs_compared", "pairs_with_effect_after_Y", "arrays_compared_before_Y"],
    "assumptions": ["ill-posed junction runs and non-finite function values are outside the domain (counted)"],
    "case_timeout": 300,
}

KINDS = ["program_start", "program_start", "alloc_change", "capacity_change", "coverage_change", "scenario_data", "scenario_function", "scenario_transfer", "scenario_interaction", "stop_year", "extend_end"]
N = {"quick": 440, "thorough": 12000}


def count(tier, seed):
    return N[tier]


def pick_Y(rng, s):
    n = max(1, int(round((s["end"] - s["start"]) / s["dt"])))
    u = rng.random()
    if u < 0.04:
        return float(s["start"] + s["dt"] * n + float(rng.uniform(0.01, 3))), "after-end"  # begins after the last simulated time: nothing may change
    if u < 0.1:
        # a hair after / before a grid point: the grid point itself is then before / not before Y
        k = int(rng.integers(1, n + 1))
        eps = float(rng.choice([1e-10, 1e-8, 1e-7, 1e-5])) * float(rng.choice([-1, 1]))
        return float(s["start"] + s["dt"] * k + eps), "near-grid"
    if u < 0.35:
        return float(s["start"] + s["dt"] * int(rng.integers(1, n + 1))), "on-grid"
    if u < 0.7:
        return float(s["start"] + s["dt"] * (int(rng.integers(0, n)) + float(rng.uniform(0.05, 0.95)))), "off-grid"
    if u < 0.8:
        return float(s["start"]), "first-point"
    if u < 0.9:
        return float(s["start"] + s["dt"] * n), "last-point"
    return float(s["start"] - float(rng.uniform(0.1, 3))), "before-start"


def make_case(tier, seed, index):
    rng = gen.rng_for(seed, 9, index)
    kind = KINDS[index % len(KINDS)]
    pf = {"p_targetable": 0.7, "p_function": 0.5, "n_pops": (1, 3), "p_transfer": 0.8 if kind == "scenario_transfer" else 0.4, "p_aggregation": 0.9 if kind == "scenario_interaction" else 0.2, "steps": (4, 24)}
    if kind in ("scenario_transfer", "scenario_interaction"):
        pf["n_pops"] = (2, 3)
    if tier == "thorough":
        pf["steps"] = (4, 50)
    for attempt in range(20):
        spec = gen.gen_spec(rng, pf)
        ps = gen.gen_progspec(rng, spec)
        if kind in ("program_start", "alloc_change", "capacity_change", "coverage_change", "stop_year") and ps is None:
            continue
        if kind == "scenario_transfer" and not spec["transfers"]:
            continue
        if kind == "scenario_interaction" and not spec["interactions"]:
            continue
        if kind == "scenario_function" and not [p for p in spec["pars"] if p["function"] and not p["timed"] and not p["name"].startswith(("agg", "out"))]:
            continue
        break
    if kind == "extend_end" and rng.random() < 0.7:
        # a parameter that switches exactly at a grid time (written as the grid defines it: start + j*dt): if the same time point
        # differed in the last bit between the short and the extended run, the switch would happen one step apart
        s_ = spec["settings"]
        n_ = max(1, int(round((s_["end"] - s_["start"]) / s_["dt"])))
        cands = [p for p in spec["pars"] if not p["timed"] and p["function"] is None and p["format"] in ("rate", "probability") and p["name"].startswith("q")]
        if cands and n_ >= 3:
            p_ = cands[int(rng.integers(0, len(cands)))]
            terms = []
            for j_ in sorted(set(int(x) for x in rng.integers(1, n_, size=min(6, n_ - 1)))):
                terms.append("%r*(t>=%r)" % (float(rng.uniform(0.05, 0.4)), float(s_["start"]) + j_ * float(s_["dt"])))
            p_["function"] = "0.05+" + "+".join(terms)
            p_["max"] = None  # (the databook entry stays: a function parameter may have one, its calibration factor scales the function)
    Y, ykind = pick_Y(rng, spec["settings"])
    return {"kind": kind, "spec": spec, "progspec": ps, "Y": Y, "Ykind": ykind, "u": [float(x) for x in rng.random(6)]}


def effect_after(a, b, mask_after):
    for k in a:
        if k not in b or k == ("t",):
            continue
        x, y = a[k], b[k]
        if x.shape != y.shape:
            return True
        xs = x[..., mask_after] if x.shape[-1] == mask_after.shape[0] else x
        ys = y[..., mask_after] if y.shape[-1] == mask_after.shape[0] else y
        with np.errstate(all="ignore"):
            if np.any(np.abs(xs - ys) > 1e-6 * np.maximum(1.0, np.maximum(np.abs(xs), np.abs(ys)))):
                return True
    return False


def run_case(case):
    import atomica as at
    import sciris as sc

    R = ref.Recs()
    spec, ps, kind, Y = case["spec"], case["progspec"], case["kind"], case["Y"]
    u = case["u"]
    P = gen.build_project(spec)
    s = spec["settings"]
    pset = gen.build_progset(ps, P.framework, P.data) if ps is not None else None
    base_parset = P.parsets[0]
    t0 = float(s["start"])

    def run(parset=None, instr=None, use_progs=True):
        return P.run_sim(parset if parset is not None else base_parset, progset=pset if (use_progs and instr is not None) else None, progset_instructions=instr if use_progs else None)

    tol = 0.0
    try:
        if kind == "program_start":
            iA = gen.build_instructions(ps, {"start": float(s["end"]) + 10.0, "stop": None})
            iB = gen.build_instructions(ps, {"start": Y, "stop": None})
            rA, rB = run(instr=iA), run(instr=iB)
        elif kind in ("alloc_change", "capacity_change", "coverage_change"):
            field = {"alloc_change": "alloc", "capacity_change": "capacity", "coverage_change": "coverage"}[kind]
            prog = ps["programs"][int(u[0] * len(ps["programs"])) % len(ps["programs"])]["name"]
            v0 = {"alloc": 10 ** (1 + 4 * u[1]), "capacity": 10 ** (4 * u[1]), "coverage": u[1]}[field]
            v1 = {"alloc": 10 ** (1 + 4 * u[2]), "capacity": 10 ** (4 * u[2]), "coverage": u[2]}[field]
            tbefore = min(t0, Y) - 1.0
            if Y > t0 + float(s["dt"]) and (u[3] * 100) % 1 < 0.4:
                # the first dated point lies after the program start (and before Y): until then the first value is in force
                # (constant extrapolation), whatever comes later in the series
                tbefore = t0 + (0.1 + 0.8 * ((u[4] * 100) % 1)) * (Y - t0)
                R.count("overwrite_series_whose_first_point_is_after_the_program_start")
            insA = dict(ps["instructions"])
            insA.update({"start": t0, "stop": None})
            insA[field] = dict(insA[field])
            insA[field][prog] = {"t": [tbefore], "v": [v0]}
            insB = sc.dcp(insA)
            insB[field][prog] = {"t": [tbefore, Y], "v": [v0, v1]}
            iA = gen.build_instructions({"instructions": insA})
            iB = gen.build_instructions({"instructions": insB})
            rA, rB = run(instr=iA), run(instr=iB)
        elif kind.startswith("scenario"):
            if (u[5] * 100) % 1 < 0.35:
                # the parameter set's own fallback interpolation of databook values is stepped or pchip (migrated projects): in
                # force in both runs of the pair, so the scenario still has no effect before its first year
                method_ = "previous" if (u[5] * 1000) % 1 < 0.5 else "pchip"
                for par_ in base_parset.all_pars():
                    par_._interpolation_method = method_
                R.count("scenario_pairs_on_a_parset_with_%s_interpolation" % method_)
            scen = at.ParameterScenario(name="scen", interpolation="linear" if u[3] < 0.5 else "previous")
            if kind == "scenario_data":
                cands = [p for p in spec["pars"] if p["db"] and not p["function"] and not p["timed"]]
            elif kind == "scenario_function":
                cands = [p for p in spec["pars"] if p["function"] and not p["timed"] and not p["name"].startswith(("agg", "out"))]
            else:
                cands = []
            ts = [Y] + [Y + (k + 1) * (0.3 + u[4]) for k in range(int(u[5] * 3))]
            # the same quantity may already be overwritten for another population (pair) from an earlier year Y0 on - in both
            # runs of the pair: the entry under test still has no effect before its own first year Y
            rng2 = np.random.default_rng(int(u[3] * 1e9) + 7)
            Y0 = Y - float(s["dt"]) * float(rng2.choice([0.5, 1.0, 2.0, 3.5, 6.0, 40.0]))
            ts0 = [Y0] + ([Y0 + 0.7 * (Y - Y0)] if rng2.random() < 0.4 else [])
            with_other = rng2.random() < 0.5
            scenA = at.ParameterScenario(name="scen", interpolation=scen.interpolation)
            if kind in ("scenario_data", "scenario_function"):
                if not cands:
                    return {"records": [], "stats": {"no_candidate": 1}, "nontrivial": False}
                p = cands[int(u[0] * len(cands)) % len(cands)]
                pop = spec["pops"][int(u[1] * len(spec["pops"])) % len(spec["pops"])]
                rng = np.random.default_rng(int(u[2] * 1e9))
                others = [x for x in spec["pops"] if x != pop]
                if with_other and others:
                    vals0 = [gen.sample_value(rng2, p["format"], "mild") + 0.01 for _ in ts0]
                    other = others[int(rng2.integers(0, len(others)))]
                    first = rng2.random() < 0.5  # (the order in which the entries are given must not matter either)
                    if first:
                        scen.add(p["name"], other, ts0, vals0)
                    scenA.add(p["name"], other, ts0, vals0)
                scen.add(p["name"], pop, ts, [gen.sample_value(rng, p["format"], "mild") + 0.01 for _ in ts])
                if with_other and others and not first:
                    scen.add(p["name"], other, ts0, vals0)
                target = p["name"]
            elif kind == "scenario_transfer":
                tr = spec["transfers"][0]
                a, b, units, _ = tr["entries"][int(u[0] * len(tr["entries"])) % len(tr["entries"])]
                rng = np.random.default_rng(int(u[2] * 1e9))
                others = [e for e in tr["entries"] if (e[0], e[1]) != (a, b)]
                if with_other and others:
                    e = others[int(rng2.integers(0, len(others)))]
                    vals0 = [gen.sample_value(rng2, e[2], "mild") + 0.01 for _ in ts0]
                    scen.add(tr["name"], (e[0], e[1]), ts0, vals0)
                    scenA.add(tr["name"], (e[0], e[1]), ts0, vals0)
                scen.add(tr["name"], (a, b), ts, [gen.sample_value(rng, units, "mild") + 0.01 for _ in ts])
                target = tr["name"]
            else:
                it = spec["interactions"][0]
                a, b, _ = it["entries"][int(u[0] * len(it["entries"])) % len(it["entries"])]
                others = [e for e in it["entries"] if (e[0], e[1]) != (a, b)]
                if with_other and others:
                    e = others[int(rng2.integers(0, len(others)))]
                    vals0 = [0.1 + 3 * float(rng2.random()) for _ in ts0]
                    scen.add(it["name"], (e[0], e[1]), ts0, vals0)
                    scenA.add(it["name"], (e[0], e[1]), ts0, vals0)
                scen.add(it["name"], (a, b), ts, [0.1 + 3 * u[2] for _ in ts])
                target = it["name"]
            has_other = bool(scenA.scenario_values)
            if has_other:
                R.count("scenario_pairs_with_an_earlier_overwrite_of_the_same_quantity_elsewhere")
            try:
                parB = scen.get_parset(base_parset, P)
                parA = scenA.get_parset(base_parset, P) if has_other else None
            except Exception as e:
                if "has no values to use instead" in str(e):
                    raise
                # an overwrite whose first point lies anywhere (also beyond the last simulation time) is a valid intervention
                R.bad("intervention-applies", "C09:scenario-cannot-be-applied[%s,%s]" % (type(e).__name__, "Y>end" if Y > float(s["end"]) else "Y<=end"), {"Y": Y, "end": float(s["end"]), "target": target, "error": str(e)[:200]})
                return {"records": R.records(), "stats": R.stats, "nontrivial": False}
            instr = gen.build_instructions(ps) if (ps is not None and u[4] < 0.4) else None
            rA, rB = run(parset=parA, instr=instr), run(parset=parB, instr=instr)
        elif kind == "stop_year":
            stop = max(Y, t0)
            iB = gen.build_instructions(ps, {"start": t0, "stop": stop})
            rB = run(instr=iB)
            # the run without programs but with the same program set attached (same structure): instructions starting beyond the end
            iA = gen.build_instructions(ps, {"start": float(s["end"]) + 10.0, "stop": None})
            rA = run(instr=iA)
        elif kind == "extend_end":
            instr = gen.build_instructions(ps) if (ps is not None and u[4] < 0.5) else None
            # optionally with a parameter scenario that has one point inside the short run and one after its end (the ramp
            # towards the later point is in force before the short end, so it must look the same in both runs)
            scen = None
            cands = [p for p in spec["pars"] if p["db"] and not p["function"] and not p["timed"]]
            if u[5] < 0.5 and cands:
                p_ = cands[int(u[0] * len(cands)) % len(cands)]
                pop_ = spec["pops"][int(u[1] * len(spec["pops"])) % len(spec["pops"])]
                y_in = float(s["start"]) + (0.2 + 0.6 * u[2]) * (float(s["end"]) - float(s["start"]))
                y_out = float(s["end"]) + float(s["dt"]) * (0.5 + 9.0 * u[3])
                rng_ = np.random.default_rng(int(u[2] * 1e9))
                scen = at.ParameterScenario(name="scen", interpolation="linear" if u[3] < 0.7 else "previous")
                scen.add(p_["name"], pop_, [y_in, y_out], [gen.sample_value(rng_, p_["format"], "mild") + 0.01, gen.sample_value(rng_, p_["format"], "mild") + 0.02])
                R.count("extension_with_scenario_point_after_the_short_end")
            rA = run(parset=scen.get_parset(base_parset, P) if scen is not None else None, instr=instr)
            P.settings.update_time_vector(end=float(s["end"]) + float(s["dt"]) * (1 + int(u[0] * 10)) - (0.5 * s["dt"] if u[1] < 0.3 else 0.0))
            rB = run(parset=scen.get_parset(base_parset, P) if scen is not None else None, instr=instr)
            tol = 1e-12
        else:
            raise RuntimeError(kind)
    except Exception as e:
        if "has no values to use instead" in str(e):
            return {"records": [], "stats": {"run_rejected": 1}, "nontrivial": False, "excluded": str(e)[:100]}
        raise

    vA, vB = ref.View(rA), ref.View(rB)
    for v in (vA, vB):
        if v.ill_posed_junctions():
            return {"records": [], "stats": {"illposed_runs": 1}, "nontrivial": False, "excluded": "ill-posed"}
    A, B = digest.result_arrays(rA), digest.result_arrays(rB)
    tA, tB = vA.t, vB.t
    R.count("pairs_compared")
    R.count("kind[%s]" % kind)
    R.count("Y[%s]" % case["Ykind"])
    nontrivial = False
    if kind == "extend_end":
        n = min(len(tA), len(tB))
        if len(tB) <= len(tA):
            R.count("extension_did_not_extend")
        # (witnessed on the pinned tree before the repair: the grid was built from its end points, the same time point
        # differed in the last bit between the two runs and a parameter function with a comparison amplified that to 6%)
        same_t = tA[:n] == tB[:n]
        n_j = n  # every common index is judged, as the property states (to 1e-12)
        R.count("extension_indices_judged", n_j)
        R.count("extension_indices_where_grid_differs_in_last_bit", int(np.sum(~same_t)))
        scale = max([1.0] + [float(np.nanmax(np.abs(np.where(np.isfinite(v), v, 0.0)))) for k, v in A.items() if k[0] in ("comp", "link") and v.size])
        diffs = []
        for k in A:
            if k not in B or k == ("t",):
                continue
            x = A[k][..., :n_j] if A[k].shape[-1] == len(tA) else A[k]
            y = B[k][..., :n_j] if B[k].shape[-1] == len(tB) else B[k]
            if x.shape != y.shape:
                diffs.append((k, None, x.shape, y.shape))
                continue
            with np.errstate(all="ignore"):
                ok = (np.abs(x - y) <= 1e-12 * np.maximum(scale, np.maximum(np.abs(x), np.abs(y)))) | (x == y) | (np.isnan(x) & np.isnan(y))
            if not np.all(ok):
                idx = np.argwhere(~ok)[0]
                diffs.append((k, [int(i) for i in idx], float(x[tuple(idx)]), float(y[tuple(idx)])))
        R.count("arrays_compared_before_Y", len(A))
        nontrivial = len(tB) > len(tA) and n_j >= 2
        if nontrivial:
            R.count("pairs_with_effect_after_Y")
        if diffs:
            R.bad("earlier-times-unchanged-by-end-year", "C09:end-year-extension-changes-earlier-output[%s]" % str(diffs[0][0][0]), {"first_differences": [list(map(str, d)) for d in diffs[:3]], "end_A": float(tA[-1]), "end_B": float(tB[-1])})
        else:
            R.ok("earlier-times-unchanged-by-end-year")
    elif kind == "stop_year":
        # after the stop, data-driven targeted parameters take their non-program values again
        stop = max(Y, t0)
        after = tA > stop
        targeted = {(c["par"], c["pop"]) for c in ps["covouts"]}
        fcn = {p["name"]: p["function"] for p in spec["pars"]}
        n = 0
        for (par, pop) in targeted:
            if fcn.get(par):
                continue
            ka = ("par", pop, par)
            if ka in A and ka in B:
                n += 1
                x, y = A[ka][after], B[ka][after]
                same = (x == y) | (np.isnan(x) & np.isnan(y))
                if not np.all(same):
                    i = int(np.argmax(~same))
                    R.bad("after-stop-data-values-return", "C09:targeted-parameter-keeps-program-value-after-stop", {"par": par, "pop": pop, "t": float(tA[after][i]), "with_programs": float(y[i]), "without": float(x[i]), "stop": stop})
                else:
                    R.ok("after-stop-data-values-return")
        R.count("arrays_compared_before_Y", n)
        during = (tA >= t0) & (tA <= stop)
        nontrivial = effect_after(A, B, during) and np.any(after)
        if nontrivial:
            R.count("pairs_with_effect_after_Y")
    else:
        before = tA < Y
        R.count("arrays_compared_before_Y", len(A))
        diffs = digest.compare_arrays(A, B, rtol=0.0, mask=before)
        diffs = [d for d in diffs if d[0] != ("t",)]
        if diffs:
            what = str(diffs[0][0][0])
            R.bad("no-effect-before-Y", "C09:effect-before-start[%s,%s,%s]" % (kind, case["Ykind"], what), {"Y": Y, "first_differences": [list(map(str, d)) for d in diffs[:4]], "t": tA[: min(len(tA), 6)].tolist()})
        else:
            R.ok("no-effect-before-Y")
        nontrivial = effect_after(A, B, ~before) and np.any(before)
        if nontrivial:
            R.count("pairs_with_effect_after_Y")
    sample = dict(simprop.sample_of(spec))
    sample.update({"intervention": kind, "Y": Y, "Ykind": case["Ykind"]})
    return {"records": R.records(), "stats": R.stats, "nontrivial": bool(nontrivial), "sample": sample}

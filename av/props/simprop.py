"""Common scaffolding for the properties decided on whole simulated runs of generated models."""

from av import corpus, gen, ref, simcase

CORPUS_EVERY = 8  # every 8th case is a library / fixture model under perturbation (av/corpus.py)

SIZES = {"quick": 640, "thorough": 24000}


def make_case_for(prop_number, profile=None, prefer=()):
    def make_case(tier, seed, index):
        rng = gen.rng_for(seed, prop_number, index)
        if index % CORPUS_EVERY == CORPUS_EVERY - 1:
            return corpus.make_case(rng, max_steps=40 if tier == "quick" else 80, prefer=prefer)
        pf = dict(profile or {})
        if tier == "thorough":
            pf.setdefault("steps", (3, 60))
        pf.setdefault("p_targetable", 0.5)
        idle = prop_number == 1 and index % 16 == 9
        if idle:
            pf.update({"n_junctions": (1, 2), "p_residual": 0.0, "p_junction_init": 0.0, "p_timed": 0.0})
        spec = gen.gen_spec(rng, pf)
        if idle:
            make_a_junction_idle(spec)
        # about a third of the models run with a generated program set (program-driven rates, numbers and junction
        # proportions, start/stop years on and off the grid, overwrites); drawn from a stream of its own
        rng2 = gen.rng_for(seed, prop_number, 500000 + index)
        ps = gen.gen_progspec(rng2, spec) if rng2.random() < 0.35 else None
        return {"kind": "generated", "spec": spec, "progspec": ps}

    return make_case


def make_a_junction_idle(spec):
    """One plain junction of the model receives nobody (its inflow parameters are zero) while all its proportions are zero:
    it has nothing to distribute, and its outflows must then be exactly zero (not 0/0)."""
    juncs = [c["name"] for c in spec["comps"] if c["kind"] == "junc"]
    by_name = {p["name"]: p for p in spec["pars"]}
    for j in juncs:
        outs = [x.strip() for a, b, pn in spec["trans"] if a == j and pn != ">" for x in str(pn).split(",")]
        ins = [x.strip() for a, b, pn in spec["trans"] if b == j and pn != ">" for x in str(pn).split(",")]
        if any(pn == ">" for a, b, pn in spec["trans"] if a == j) or any(a in juncs for a, b, pn in spec["trans"] if b == j):
            continue
        if not outs or any(by_name[x]["function"] is not None or not by_name[x]["db"] for x in outs + ins):
            continue
        for x in outs + ins:
            by_name[x]["min"] = None if by_name[x]["min"] is None else min(0.0, by_name[x]["min"])
            by_name[x]["targetable"] = False
            for pop in spec["pops"]:
                spec["values"].setdefault(x, {})[pop] = {"a": 0.0}
            spec.get("yfactors", {}).pop(x, None)
            spec.get("meta_yfactors", {}).pop(x, None)
        if j in spec["values"]:
            for pop in spec["pops"]:
                spec["values"][j][pop] = {"a": 0.0}
        return True
    return False


def sample_of_case(case):
    return corpus.describe(case) if case.get("kind") == "corpus" else sample_of(case["spec"])


def sample_of(spec):
    return {
        "comps": ["%s:%s" % (c["name"], c["kind"]) for c in spec["comps"]],
        "transitions": ["%s->%s:%s" % (a, b, p) for a, b, p in spec["trans"]],
        "pars": {p["name"]: "%s/T=%s%s%s" % (p["format"], p.get("timescale"), " f=" + p["function"] if p.get("function") else "", " timed" if p.get("timed") else "") for p in spec["pars"]},
        "pops": spec["pops"],
        "transfers": ["%s->%s:%s" % (e[0], e[1], e[2]) for t in spec.get("transfers", []) for e in t["entries"]],
        "settings": spec["settings"],
        "value_class": spec["meta"]["vclass"],
    }


def features(view):
    f = set()
    for c in view.comps:
        f.add("comp:" + c["kind"])
        if c["residual_junction"]:
            f.add("comp:residual-junction")
    for l in view.links:
        if l["transfer"]:
            f.add("link:transfer")
        if l["timedlink"]:
            f.add("link:timedlink")
        if l["flush"]:
            f.add("link:flush")
        if l["par"] is not None:
            f.add("units:" + str(l["par"].units))
    return f

"""Common scaffolding for the properties decided on whole simulated runs of generated models."""

from av import corpus, gen, ref, simcase

CORPUS_EVERY = 8  # every 8th case is a library / fixture model under perturbation (av/corpus.py)

SIZES = {"quick": 640, "thorough": 24000}


def make_case_for(prop_number, profile=None, prefer=()):
    def make_case(tier, seed, index):
        rng = gen.rng_for(seed, prop_number, index)
        if index % CORPUS_EVERY == CORPUS_EVERY - 1:
            return corpus.make_case(rng, max_steps=40 if tier == "quick" else 80, prefer=prefer)
        pf = dict(profile or {})
        if tier == "thorough":
            pf.setdefault("steps", (3, 60))
        pf.setdefault("p_targetable", 0.5)
        spec = gen.gen_spec(rng, pf)
        # about a third of the models run with a generated program set (program-driven rates, numbers and junction
        # proportions, start/stop years on and off the grid, overwrites); drawn from a stream of its own
        rng2 = gen.rng_for(seed, prop_number, 500000 + index)
        ps = gen.gen_progspec(rng2, spec) if rng2.random() < 0.35 else None
        return {"kind": "generated", "spec": spec, "progspec": ps}

    return make_case


def sample_of_case(case):
    return corpus.describe(case) if case.get("kind") == "corpus" else sample_of(case["spec"])


def sample_of(spec):
    return {
        "comps": ["%s:%s" % (c["name"], c["kind"]) for c in spec["comps"]],
        "transitions": ["%s->%s:%s" % (a, b, p) for a, b, p in spec["trans"]],
        "pars": {p["name"]: "%s/T=%s%s%s" % (p["format"], p.get("timescale"), " f=" + p["function"] if p.get("function") else "", " timed" if p.get("timed") else "") for p in spec["pars"]},
        "pops": spec["pops"],
        "transfers": ["%s->%s:%s" % (e[0], e[1], e[2]) for t in spec.get("transfers", []) for e in t["entries"]],
        "settings": spec["settings"],
        "value_class": spec["meta"]["vclass"],
    }


def features(view):
    f = set()
    for c in view.comps:
        f.add("comp:" + c["kind"])
        if c["residual_junction"]:
            f.add("comp:residual-junction")
    for l in view.links:
        if l["transfer"]:
            f.add("link:transfer")
        if l["timedlink"]:
            f.add("link:timedlink")
        if l["flush"]:
            f.add("link:flush")
        if l["par"] is not None:
            f.add("units:" + str(l["par"].units))
    return f

"""C08 - simulation is deterministic, leaves its inputs untouched, and survives copying."""

import json
import os
import pickle
import subprocess
import sys
import tempfile

import numpy as np

from av import digest, gen, ref

MANIFEST_ENTRY = {
    "category": "exploration",
    "technique": "history monitor: seed-chosen interleavings of runs of several projects in one process with bit-exact output digests, deep structural snapshots of every input before/after each call, global-state and audit-hook (file write) observation, replay of the same runs in a fresh interpreter with a different hash seed, and deep-copy / pickle / save-load of built models and results; a directly constructed Model must not share state with the caller (model-side edits as the optimizer makes them)",
    "text": "Each case builds 2-3 projects (generated models with and without program sets, plus a library model) and executes a seed-chosen sequence of 6-9 runs that interleaves them. Every run's outputs are digested array by array (parameter-less links keyed by end points); equal (project, configuration) must give equal digests within the process and in a fresh subprocess started with another PYTHONHASHSEED. Around every call the parameter set, program set, instructions, framework, data and settings are snapshotted by a canonical structural walk and must be unchanged; numpy's global generator state, the module-level settings dicts and the logger level must be unchanged and no file may be opened for writing (audit hook). A built, unprocessed Model is deep-copied and pickled, all three are processed and must agree bit for bit; a Result saved with sc.saveobj and loaded back must hold the same arrays. Histories also contain shipped (corpus) models under perturbation. The Model is additionally constructed directly, its own instructions / program set / framework are edited the way the optimizer does after its last iteration, and the caller's objects must be structurally unchanged. Histories contain a project copied with sc.dcp from one that is also run and then edited in place (a parameter function gains a dependency on a later parameter): its runs must equal those of the same construction in a fresh process. A deep copy of a built model is also given other instructions: it must run like a model built with them, and its finished arrays must not move when the original is processed afterwards. A finished result is deep-copied, pickled and saved: the original and every copy still say whether the run used programs. A third of the generated projects have their start year moved on its own right before the runs; settings are also compared attribute by attribute without reading any property.",
    "note": "Frameworks whose functions call rand/randn are excluded (the generator never emits them). BLAS threads are pinned to 1 in every worker.",
}

META = {
    "level": "exploration",
    "rule": "cases = histories (operation sequences over 2-3 projects); non-trivial = the history contains a project with programs and a dynamic function parameter and at least one (project, configuration) is run twice with another project's run in between; distinct = history fingerprints",
    "deciding_counters": ["runs", "repeat_pairs_compared", "fresh_process_comparisons", "input_snapshots_compared", "copies_compared"],
    "assumptions": ["the harness's own snapshot is validated at the start of every case: snapshot(x) == snapshot(x) with nothing in between"],
    "case_timeout": 600,
    "shard_timeout": {"quick": 1500, "thorough": 10000},
}

N = {"quick": 48, "thorough": 1500}
LIB = ["sir", "tb_simple", "udt", "hypertension", "usdt", "hiv", "diabetes", "tb_simple_dyn", "udt_dyn"]


def count(tier, seed):
    return N[tier]


def make_case(tier, seed, index):
    rng = gen.rng_for(seed, 8, index)
    projects = []
    for k in range(int(rng.integers(1, 3))):
        spec = gen.gen_spec(rng, {"p_targetable": 0.6, "p_function": 0.6, "steps": (3, 20)})
        ps = gen.gen_progspec(rng, spec)
        scen = None
        cands = [p for p in spec["pars"] if p["function"] and not p["timed"] and not p["name"].startswith(("agg", "out"))]
        if cands:
            p = cands[int(rng.integers(0, len(cands)))]
            s_ = spec["settings"]
            y0 = float(s_["start"] + rng.uniform(0.2, 0.8) * (s_["end"] - s_["start"]))
            scen = {"par": p["name"], "pop": spec["pops"][0], "t": [y0, y0 + 1.0], "y": [gen.sample_value(rng, p["format"], "mild"), gen.sample_value(rng, p["format"], "mild")]}
        projects.append({"kind": "generated", "spec": spec, "progspec": ps, "scenario": scen, "start_moved_alone": float(rng.choice([0.37, 0.5, 0.81])) if rng.random() < 0.35 else None})
    projects.append({"kind": "library", "name": LIB[int(rng.integers(0, len(LIB)))]})
    if rng.random() < 0.5:
        # a library / fixture model under perturbation (several population types, derivative parameters, junction fixtures)
        from av import corpus

        for _ in range(20):
            cc = corpus.make_case(rng, max_steps=12)
            if "stochastic" not in cc["framework"]:  # frameworks calling the random-number generators are excluded by the property
                projects.append(cc)
                break
    # a copy of one of the generated projects whose framework is then edited in place (a parameter function gains a dependency on a
    # parameter listed later): same identity attributes (uid, name), other content.  Nothing remembered from runs of the
    # original may leak into runs of the copy.
    derived_of = None
    if rng.random() < 0.6:
        k = int(rng.integers(0, len([p for p in projects if p["kind"] == "generated"])))
        spec_k = projects[k]["spec"]
        names = [p["name"] for p in spec_k["pars"]]
        Cs = [p for p in spec_k["pars"] if p["function"] and not p["timed"] and not p["name"].startswith(("agg", "out"))]
        edits = []
        for C in Cs:
            later = [q for q in spec_k["pars"][names.index(C["name"]) + 1 :] if q["function"] is None and q["db"] and not q["timed"] and q["format"] != "duration" and q["name"] not in C["function"]]
            if later:
                edits.append((C, later[int(rng.integers(0, len(later)))]))
        if edits:
            C, D = edits[int(rng.integers(0, len(edits)))]
            projects.append({"kind": "derived", "base_index": k, "base": projects[k], "edit": {"par": C["name"], "function": "(%s)+0.01*%s" % (C["function"], D["name"])}, "progspec": projects[k].get("progspec")})
            derived_of = (len(projects) - 1, k)
    ops = []
    n = int(rng.integers(6, 10))
    for j in range(n):
        i = int(rng.integers(0, len(projects)))
        cfgs = ["plain"]
        if projects[i]["kind"] == "library" or projects[i].get("progspec") or projects[i].get("progbook"):
            cfgs.append("programs")
        if projects[i].get("scenario"):
            cfgs.append("scenario")
        ops.append([i, str(rng.choice(cfgs))])
    if derived_of is not None:
        m, k = derived_of
        cfg_ = "programs" if (projects[k].get("progspec") and rng.random() < 0.6) else "plain"
        ops += [[k, cfg_], [m, cfg_], [k, cfg_], [m, cfg_]]
    # make sure something repeats with another project's run in between
    ops.append(list(ops[0]))
    return {"kind": "history", "projects": projects, "ops": ops, "child_hashseed": int(rng.integers(1, 1000))}


def build(pdesc, built=None):
    import atomica as at

    if pdesc["kind"] == "derived":
        import sciris as sc

        # in the parent the copy is taken from the very project object that is also run unedited; a fresh process builds its own
        P0, pset0, instr0 = built[pdesc["base_index"]] if built is not None else build(pdesc["base"])
        P = sc.dcp(P0)
        P.framework.pars.at[pdesc["edit"]["par"], "function"] = pdesc["edit"]["function"]
        return P, sc.dcp(pset0), sc.dcp(instr0)
    if pdesc["kind"] == "library":
        name = pdesc["name"]
        P = at.Project(framework=at.LIBRARY_PATH / ("%s_framework.xlsx" % name), databook=at.LIBRARY_PATH / ("%s_databook.xlsx" % name), do_run=False)
        P.settings.update_time_vector(end=P.settings.sim_start + 8)
        pset = P.load_progbook(at.LIBRARY_PATH / ("%s_progbook.xlsx" % name))
        instr = at.ProgramInstructions(start_year=P.settings.sim_start + 2)
        return P, pset, instr
    if pdesc["kind"] == "corpus":
        from av import corpus

        return corpus.build(pdesc)
    P = gen.build_project(pdesc["spec"])
    if pdesc.get("scenario"):
        sc_ = pdesc["scenario"]
        scen = at.ParameterScenario(name="scen")
        scen.add(sc_["par"], sc_["pop"], sc_["t"], sc_["y"])
        ps2 = scen.get_parset(P.parsets[0], P)
        ps2.name = "scen"
        P.parsets.append(ps2)
    pset = instr = None
    if pdesc.get("progspec"):
        pset = gen.build_progset(pdesc["progspec"], P.framework, P.data)
        instr = gen.build_instructions(pdesc["progspec"])
    if pdesc.get("start_moved_alone"):
        # (last thing before the runs) the start year has been moved on its own to a year that is not a whole number of steps
        # before the end: the stored end year is then not a grid point, and stays what the user set it to
        P.settings.sim_start = float(P.settings.sim_start) + float(pdesc["start_moved_alone"]) * float(P.settings.sim_dt)
    return P, pset, instr


def parset_for(P, cfg):
    if cfg == "scenario":
        return P.parsets["scen"]
    return P.parsets[0]


def run_cfg(P, pset, instr, cfg):
    if cfg == "scenario":
        return P.run_sim(P.parsets["scen"])
    if cfg == "programs":
        return P.run_sim(P.parsets[0], progset=pset, progset_instructions=instr)
    return P.run_sim(P.parsets[0])


_AUD = {"on": False, "events": [], "installed": False}


def _hook(event, args):
    if _AUD["on"] and event == "open":
        mode = args[1] if len(args) > 1 else ""
        if isinstance(mode, str) and any(c in mode for c in "wax+"):
            _AUD["events"].append(repr(args[:2])[:200])


def child_main(path):
    from av.worker import setup_repo

    setup_repo()
    with open(path) as f:
        case = json.load(f)
    out = {}
    for i, pdesc in enumerate(case["projects"]):
        P, pset, instr = build(pdesc)
        for cfg in ("plain", "programs", "scenario"):
            if [i, cfg] in case["ops"]:
                try:
                    out["%d:%s" % (i, cfg)] = digest.result_digest(run_cfg(P, pset, instr, cfg))
                except Exception as e:
                    out["%d:%s" % (i, cfg)] = {"error": "%s: %s" % (type(e).__name__, str(e)[:200])}
    print("DIGESTS=" + json.dumps(out))


def run_case(case):
    import atomica as at
    import atomica.model as M
    import sciris as sc
    import logging

    R = ref.Recs()
    if not _AUD["installed"]:
        sys.addaudithook(_hook)
        _AUD["installed"] = True
    built = []
    for p in case["projects"]:
        built.append(build(p, built))
        if p["kind"] == "derived":
            R.count("projects_copied_and_edited_in_place")
    # harness sanity: the snapshot is stable
    s1 = digest.snapshot(built[0][0].parsets[0])
    s2 = digest.snapshot(built[0][0].parsets[0])
    if s1 != s2:
        raise RuntimeError("harness error: snapshot not stable: %s" % digest.first_difference(s1, s2))
    seen = {}
    last_other = {}
    errors = {}
    for step, (i, cfg) in enumerate(case["ops"]):
        P, pset, instr = built[i]
        inputs = {"parset": parset_for(P, cfg), "progset": pset, "instructions": instr, "framework": P.framework, "data": P.data, "settings": P.settings}
        settings_attrs0 = {k_: repr(v_) for k_, v_ in vars(P.settings).items()}  # (taken without reading any property: reading is not supposed to write)
        before = {k: digest.snapshot(v) for k, v in inputs.items()}
        rs0 = np.random.get_state()
        ms0 = dict(M.model_settings)
        lvl0 = at.logger.level
        _AUD["events"] = []
        _AUD["on"] = True
        try:
            res = run_cfg(P, pset, instr, cfg)
            err = None
        except Exception as e:
            res = None
            err = "%s: %s" % (type(e).__name__, str(e)[:200])
        finally:
            _AUD["on"] = False
        R.count("runs")
        after = {k: digest.snapshot(v) for k, v in inputs.items()}
        settings_attrs1 = {k_: repr(v_) for k_, v_ in vars(P.settings).items()}
        R.count("input_snapshots_compared")
        if settings_attrs1 != settings_attrs0:
            ch_ = sorted(k_ for k_ in set(settings_attrs0) | set(settings_attrs1) if settings_attrs0.get(k_) != settings_attrs1.get(k_))
            R.bad("inputs-unchanged", "C08:input-modified[settings-attributes,%s]" % cfg, {"op": [i, cfg], "changed": {k_: [settings_attrs0.get(k_), settings_attrs1.get(k_)] for k_ in ch_}})
        else:
            R.ok("inputs-unchanged")
        for k in inputs:
            R.count("input_snapshots_compared")
            if before[k] != after[k]:
                R.bad("inputs-unchanged", "C08:input-modified[%s,%s]" % (k, cfg), {"op": [i, cfg], "difference": digest.first_difference(before[k], after[k])})
            else:
                R.ok("inputs-unchanged")
        rs1 = np.random.get_state()
        if not (rs0[0] == rs1[0] and np.array_equal(rs0[1], rs1[1]) and rs0[2:] == rs1[2:]):
            R.bad("no-hidden-global-state", "C08:global-random-state-consumed", {"op": [i, cfg]})
        elif dict(M.model_settings) != ms0 or at.logger.level != lvl0:
            R.bad("no-hidden-global-state", "C08:module-settings-changed", {"op": [i, cfg]})
        else:
            R.ok("no-hidden-global-state")
        if _AUD["events"]:
            R.bad("no-file-writes", "C08:simulation-writes-files", {"op": [i, cfg], "events": _AUD["events"][:5]})
        else:
            R.ok("no-file-writes")
        key = (i, cfg)
        if err is not None:
            errors[key] = err
            if key in seen and seen[key] != ("error", err):
                R.bad("repeat-run-identical", "C08:repeat-run-error-differs", {"op": [i, cfg], "first": str(seen[key])[:200], "now": err})
            seen.setdefault(key, ("error", err))
            continue
        arrs = digest.result_arrays(res)
        if key in seen and seen[key][0] == "arrays":
            R.count("repeat_pairs_compared")
            diffs = digest.compare_arrays(seen[key][1], arrs)
            if diffs:
                R.bad("repeat-run-identical", "C08:repeat-run-differs[%s]" % cfg, {"op": [i, cfg], "step": step, "runs_in_between": [o for o in case["ops"][seen[key][2] + 1 : step]], "first_differences": [list(map(str, d)) for d in diffs[:3]]})
            else:
                R.ok("repeat-run-identical")
                if any(o[0] != i for o in case["ops"][seen[key][2] + 1 : step]):
                    R.count("repeats_with_other_project_in_between")
        else:
            seen[key] = ("arrays", arrs, step)

    # ---- fresh process with a different hash seed
    with tempfile.NamedTemporaryFile("w", suffix=".json", delete=False) as f:
        json.dump(case, f, default=str)
        path = f.name
    try:
        env = dict(os.environ)
        env["PYTHONHASHSEED"] = str(case["child_hashseed"])
        p = subprocess.run([sys.executable, "-c", "import sys; sys.path.insert(0, %r); from av.props.c08 import child_main; child_main(%r)" % (os.path.dirname(os.path.dirname(os.path.dirname(os.path.abspath(__file__)))), path)], capture_output=True, text=True, timeout=400, env=env)
        line = [l for l in p.stdout.splitlines() if l.startswith("DIGESTS=")]
        if not line:
            R.inc("fresh-process-identical")
            R.count("fresh_process_failed")
        else:
            child = json.loads(line[0][len("DIGESTS=") :])
            for key, v in seen.items():
                ck = "%d:%s" % key
                if ck not in child:
                    continue
                R.count("fresh_process_comparisons")
                if v[0] != "arrays":
                    if "error" not in child[ck]:
                        R.bad("fresh-process-identical", "C08:fresh-process-differs[error-vs-result]", {"op": list(key)})
                    continue
                mine = {"|".join(map(str, k)): digest.arr_digest(a) for k, a in v[1].items()}
                if "error" in child[ck]:
                    R.bad("fresh-process-identical", "C08:fresh-process-differs[result-vs-error]", {"op": list(key), "child": child[ck]})
                elif mine != child[ck]:
                    d = [k for k in mine if child[ck].get(k) != mine[k]][:5]
                    R.bad("fresh-process-identical", "C08:fresh-process-differs[%s]" % key[1], {"op": list(key), "arrays": d, "hashseed": case["child_hashseed"]})
                else:
                    R.ok("fresh-process-identical")
    except subprocess.TimeoutExpired:
        R.inc("fresh-process-identical")
    finally:
        os.unlink(path)

    # ---- copies of a built, unprocessed model
    for i, (P, pset, instr) in enumerate(built):
        for cfg in ("programs", "scenario", "plain"):
            if (i, cfg) not in seen or seen[(i, cfg)][0] != "arrays":
                continue
            own = {"parset": parset_for(P, cfg), "progset": pset if cfg == "programs" else None, "instructions": instr if cfg == "programs" else None, "framework": P.framework, "settings": P.settings}
            own_before = {k: digest.snapshot(v) for k, v in own.items()}
            try:
                m = M.Model(P.settings, P.framework, own["parset"], own["progset"], own["instructions"])
            except Exception:
                continue
            variants = {}
            try:
                variants["deepcopy"] = sc.dcp(m)
                variants["pickle"] = pickle.loads(pickle.dumps(m))
                import copy

                variants["copy.deepcopy"] = copy.deepcopy(m)
            except Exception as e:
                R.bad("copies-run-identically", "C08:model-copy-fails[%s]" % type(e).__name__, {"op": [i, cfg], "error": str(e)[:200]})
                continue
            # build once, copy, change the copy's instructions, process both (the what-if pattern): the sibling runs like a model
            # built with those instructions, and its finished outputs do not move when the original is processed afterwards
            sib = sib_arrays = None
            if cfg == "programs" and own["instructions"] is not None:
                try:
                    def other(ins):
                        ins.start_year = float(ins.start_year) + 2.0 * float(P.settings.sim_dt)
                        for j_, (k_, ts) in enumerate(sorted(ins.alloc.items())):
                            ts.vals = [v_ * (3.0 if j_ % 2 == 0 else 0.25) for v_ in ts.vals]
                        return ins

                    sib = sc.dcp(m)
                    other(sib.program_instructions)
                    m_ref = M.Model(P.settings, P.framework, own["parset"], own["progset"], other(sc.dcp(own["instructions"])))
                    sib.process()
                    sib_arrays = {k_: np.array(v_, copy=True) for k_, v_ in digest.result_arrays(at.Result(model=sib, parset=P.parsets[0])).items()}
                    m_ref.process()
                    dref = digest.compare_arrays(digest.result_arrays(at.Result(model=m_ref, parset=P.parsets[0])), sib_arrays)
                    R.count("sibling_copies_with_other_instructions")
                    if dref:
                        R.bad("copies-run-identically", "C08:copied-model-with-other-instructions-differs-from-a-model-built-with-them", {"op": [i, cfg], "first_differences": [list(map(str, d)) for d in dref[:3]]})
                    else:
                        R.ok("copies-run-identically")
                except Exception as e:
                    R.count("sibling_copy_not_run[%s]" % type(e).__name__)
                    sib = None
            m.process()
            base = digest.result_arrays(at.Result(model=m, parset=P.parsets[0]))
            if sib is not None and sib_arrays is not None:
                dsib = digest.compare_arrays(sib_arrays, digest.result_arrays(at.Result(model=sib, parset=P.parsets[0])))
                if dsib:
                    R.bad("copies-run-identically", "C08:finished-copy-changes-when-the-original-is-processed", {"op": [i, cfg], "first_differences": [list(map(str, d)) for d in dsib[:3]]})
                else:
                    R.ok("copies-run-identically")
            d0 = digest.compare_arrays(seen[(i, cfg)][1], base)
            if d0:
                R.bad("copies-run-identically", "C08:manually-built-model-differs-from-run_sim", {"op": [i, cfg], "first_differences": [list(map(str, d)) for d in d0[:3]]})
            for vn, mv in variants.items():
                R.count("copies_compared")
                try:
                    mv.process()
                    a = digest.result_arrays(at.Result(model=mv, parset=P.parsets[0]))
                    diffs = digest.compare_arrays(base, a)
                except Exception as e:
                    R.bad("copies-run-identically", "C08:copied-model-fails-to-run[%s,%s]" % (vn, type(e).__name__), {"op": [i, cfg], "error": str(e)[:300]})
                    continue
                if diffs:
                    R.bad("copies-run-identically", "C08:copied-model-differs[%s,%s]" % (vn, cfg), {"op": [i, cfg], "first_differences": [list(map(str, d)) for d in diffs[:3]]})
                else:
                    R.ok("copies-run-identically")
            # Result save / load
            try:
                with tempfile.TemporaryDirectory() as td:
                    fn = os.path.join(td, "res.obj")
                    resobj = at.Result(model=m, parset=P.parsets[0])
                    sc.saveobj(fn, resobj)
                    back = sc.loadobj(fn)
                # copying / pickling / saving a finished result changes neither the original nor what the copy knows about the run
                flags0 = (cfg == "programs", cfg == "programs", resobj.name, len(resobj.pop_names))  # (the run used programs iff it was given a program set and instructions)
                cp_ = sc.dcp(resobj)
                pk_ = pickle.loads(pickle.dumps(resobj))
                for label_, obj_ in (("original-after-copying", resobj), ("deepcopy", cp_), ("pickle", pk_), ("saveobj", back)):
                    f_ = (bool(obj_.used_programs), bool(obj_.model.programs_active), obj_.name, len(obj_.pop_names))
                    R.count("result_copies_compared")
                    if f_ != flags0:
                        R.bad("copies-run-identically", "C08:copied-result-loses-run-information[%s]" % label_, {"op": [i, cfg], "before": list(map(str, flags0)), "after": list(map(str, f_))})
                    else:
                        R.ok("copies-run-identically")
                diffs = digest.compare_arrays(base, digest.result_arrays(back))
                R.count("copies_compared")
                if diffs:
                    R.bad("copies-run-identically", "C08:result-save-load-differs", {"op": [i, cfg], "first_differences": [list(map(str, d)) for d in diffs[:3]]})
                else:
                    R.ok("copies-run-identically")
            except Exception as e:
                R.bad("copies-run-identically", "C08:result-save-load-fails[%s]" % type(e).__name__, {"error": str(e)[:300]})
            # a directly constructed model (the path the optimizer uses) owns copies of what it was given: editing the
            # model's own instructions / program set / framework, as the optimizer does after its last iteration, must
            # leave the caller's objects unchanged
            try:
                if m.program_instructions is not None:
                    m.program_instructions.start_year = float(m.program_instructions.start_year) + 1.0
                    for ts in m.program_instructions.alloc.values():
                        ts.insert(2031.5, 12345.0)
                    for ts in m.program_instructions.coverage.values():
                        ts.insert(2031.5, 0.123)
                if m.progset is not None:
                    for prog in m.progset.programs.values():
                        prog.unit_cost.insert(2031.5, 77.0)
                        prog.target_pops = list(prog.target_pops)[:1]
                    for co in m.progset.covouts.values():
                        co.baseline = float(co.baseline) + 0.5
                m.framework.pars.iloc[0, m.framework.pars.columns.get_loc("display name")] = "edited by the model"
                R.count("model_side_edits")
            except Exception as e:
                R.count("model_side_edit_failed[%s]" % type(e).__name__)
            for k, v in own.items():
                if v is None:
                    continue
                R.count("input_snapshots_compared")
                a_ = digest.snapshot(v)
                if a_ != own_before[k]:
                    R.bad("inputs-unchanged", "C08:model-shares-state-with-caller[%s]" % k, {"op": [i, cfg], "difference": digest.first_difference(own_before[k], a_)})
                else:
                    R.ok("inputs-unchanged")
            break  # one configuration per project is enough for the copy checks

    has_prog = any(k[1] == "programs" for k in seen)
    nontrivial = has_prog and R.stats.get("repeats_with_other_project_in_between", 0) > 0
    sample = {"ops": case["ops"], "projects": [p["name"] if p["kind"] == "library" else (p["framework"] if p["kind"] == "corpus" else {"copy_of": p["base_index"], "edit": p["edit"]} if p["kind"] == "derived" else {"comps": len(p["spec"]["comps"]), "pars": len(p["spec"]["pars"]), "pops": p["spec"]["pops"], "programs": bool(p.get("progspec"))}) for p in case["projects"]], "run_errors": {str(k): v for k, v in errors.items()}}
    return {"records": R.records(), "stats": R.stats, "nontrivial": bool(nontrivial), "sample": sample}

"""C10 - restarting from a saved state continues the original trajectory exactly."""

import numpy as np

from av import digest, gen, ref, simcase
from av.props import simprop

MANIFEST_ENTRY = {
    "category": "exploration",
    "technique": "history checker over restart chains: original run -> save state at grid year Y -> restart at Y (-> save -> restart again), every output array of the restarted run compared with the tail of the original; spreadsheet form through calibration_spreadsheet / load_calibration; generated and shipped (corpus) models",
    "text": "Generated models (junctions, timed compartments with one and many bins, duration groups, transfers, programs starting before / at / after Y) are run, the state at a grid year Y is saved into a copy of the parameter set with set_initialization, the simulation is restarted at Y and all compartments (and per-bin contents), flows, characteristics and parameters are compared with the original run at every index >= Y: bit for bit when the restarted time grid equals the tail of the original grid bit for bit, to 1e-9 otherwise. Chains restart a restart. The saved state is also written with calibration_spreadsheet, loaded into a fresh parameter set with load_calibration, and the restarted run compared (initial state to 1e-15, trajectories to 1e-9). Every 8th case restarts a shipped (corpus) model under perturbation (hand-made junction + duration-group layouts, several population types); models with derivative or random functions are excluded as the property states. 15% of the restarts are at the first time point of the saved run. Half of the calibration files are loaded into a parameter set that already holds a saved state of another year. One case in sixteen is a single-compartment multi-population model taken through the spreadsheet restart, one in sixteen restarts at the year 0 of a shifted calendar; drift on grids that differ in the last bit is judged against the measured drift of a one-ulp change of the saved state.",
    "note": "When the two time grids differ in the last bit, or the state went through the 16-17 digit spreadsheet, only models whose parameter functions are continuous (no comparisons / floor) and mildly scaled are compared beyond the first index, because a discontinuous function may legitimately amplify a last-bit difference; those cases are counted, not judged.",
}

META = {
    "level": "exploration",
    "rule": "cases = (ModelSpec, restart index chain) with optional programs; non-trivial = the state at Y differs from the state at the original start; distinct = case fingerprints",
    "deciding_counters": ["restarts_compared", "restarts_bit_exact_grid", "spreadsheet_restarts_compared"],
    "assumptions": ["models with derivative parameters are excluded by the property (never generated)"],
    "case_timeout": 300,
}

N = {"quick": 320, "thorough": 8000}
DYADIC = [1.0, 0.5, 0.25, 0.125, 0.25, 0.5]


def count(tier, seed):
    return N[tier]


def make_case(tier, seed, index):
    rng = gen.rng_for(seed, 10, index)
    if index % simprop.CORPUS_EVERY == simprop.CORPUS_EVERY - 1:
        # library / fixture model (hand-written junction + duration-group layouts, several population types) under perturbation
        from av import corpus

        case = corpus.make_case(rng, max_steps=24 if tier == "quick" else 50)
        if index % 64 == 7:
            # a model without any compartment has an empty saved state, which can be saved, exported, loaded and restarted too
            case.update({"framework": "tests/framework_par_min_max_test.xlsx", "databook": None, "progbook": None, "mode": "mild"})
        case["dt"] = float(DYADIC[int(rng.integers(0, len(DYADIC)))])
        case["steps"] = max(case["steps"], 4)
        case["prog_start_step"] = float(int(case["prog_start_step"]))
        k1 = int(rng.integers(1, case["steps"])) if rng.random() < 0.85 else 0  # (the first time point is a grid year like any other)
        chain = [k1]
        if rng.random() < 0.4 and case["steps"] - k1 >= 2:
            chain.append(int(rng.integers(1, case["steps"] - k1)) if rng.random() < 0.8 else 0)
        case.update({"kind": "restart-corpus", "chain": chain, "spreadsheet": bool(rng.random() < 0.4 or index % 64 == 7)})
        return case
    dts = DYADIC if rng.random() < 0.7 else gen.DTS
    pf = {"dts": dts, "p_targetable": 0.5, "steps": (6, 24), "p_timed": 0.5, "p_offgrid_end": 0.0, "p_junction_init": 0.5}
    single = index % 16 == 5
    if single:
        # one compartment per population, several populations connected by transfers (a purely demographic model): in the saved
        # state consecutive entries then belong to the same compartment name
        pf.update({"n_ord": (1, 1), "n_junctions": (0, 0), "p_timed": 0.0, "n_pops": (2, 3), "p_transfer": 1.0, "p_source": 0.0, "n_sinks": (0, 0), "n_aux": (1, 2)})
    if tier == "thorough":
        pf["steps"] = (6, 50)
    spec = gen.gen_spec(rng, pf)
    ps = gen.gen_progspec(rng, spec) if rng.random() < 0.5 else None
    n = max(2, int(round((spec["settings"]["end"] - spec["settings"]["start"]) / spec["settings"]["dt"])))
    k1 = int(rng.integers(1, n)) if rng.random() < 0.85 else 0  # (the first time point is a grid year like any other)
    if index % 16 == 11 and float(spec["settings"]["start"]).is_integer():
        # "time since start" models: the calendar is shifted so that the year 0 is a simulation time, and the state is saved there
        # (0 is a year like any other)
        delta = float(spec["settings"]["start"]) + float(int(rng.integers(0, 2)))  # year 0 is the first or the second whole year
        shift_years(spec, delta)
        ps = None
        k1 = int(round((0.0 - spec["settings"]["start"]) / spec["settings"]["dt"]))
        if not (0 <= k1 < n) or abs(spec["settings"]["start"] + k1 * spec["settings"]["dt"]) > 0:
            k1 = 0
    chain = [k1]
    if rng.random() < 0.4 and n - k1 >= 2:
        chain.append(int(rng.integers(1, n - k1)) if rng.random() < 0.8 else 0)
    return {"kind": "restart", "spec": spec, "progspec": ps, "chain": chain, "spreadsheet": bool(rng.random() < 0.4 or single)}


def shift_years(spec, delta):
    """Moves the whole calendar of a generated model by -delta years (data years, settings)."""

    def sh(v):
        if isinstance(v, dict) and "t" in v:
            v["t"] = [float(x) - delta for x in v["t"]]

    spec["years"] = [float(y) - delta for y in spec["years"]]
    for popvals in spec["values"].values():
        for v in popvals.values():
            sh(v)
    for t in spec.get("transfers", []):
        for e in t["entries"]:
            sh(e[3])
    for it in spec.get("interactions", []):
        for e in it.get("entries", []):
            sh(e[2])
    spec["settings"]["start"] = float(spec["settings"]["start"]) - delta
    spec["settings"]["end"] = float(spec["settings"]["end"]) - delta


def continuous(spec):
    for p in spec["pars"]:
        f = p.get("function")
        if f and any(tok in f for tok in (">", "<", "floor", "==", "!=")):
            return False
    return True


def compare_tail(R, label, A, B, k, exact, judge_beyond_first, rtol=1e-9, skip_pars=(), model_scale=False):
    """A: arrays of the earlier run, B: arrays of the restarted run; B[j] <-> A[k+j].  skip_pars: parameters judged only
    through the stocks and flows they drive; model_scale: the tolerance floor is rtol x the largest stock / flow."""
    diffs = []
    nB = B[("t",)].shape[0]
    floor = 1.0
    if model_scale:
        floor = max([1.0] + [float(np.nanmax(np.abs(np.where(np.isfinite(v), v, 0.0)))) for kk, v in A.items() if kk[0] in ("comp", "link") and v.size])
    for key in B:
        if key[0] == "par" and key[-1] in skip_pars:
            continue
        if key == ("t",) or key not in A:
            if key not in A and key != ("t",):
                diffs.append((key, None, "missing", "present"))
            continue
        x = A[key][..., k : k + nB]
        y = B[key][..., : x.shape[-1]]
        if x.shape != y.shape:
            diffs.append((key, None, x.shape, y.shape))
            continue
        if not judge_beyond_first:
            x, y = x[..., :1], y[..., :1]
        if exact:
            ok = (x == y) | (np.isnan(x) & np.isnan(y))
        else:
            with np.errstate(all="ignore"):
                sc_ = np.maximum(floor if key[0] in ("comp", "link", "bins", "charac") else 1.0, np.maximum(np.abs(x), np.abs(y)))
                ok = (np.abs(x - y) <= rtol * sc_) | (np.isnan(x) & np.isnan(y))
        if not np.all(ok):
            idx = np.argwhere(~ok)[0]
            diffs.append((key, [int(i) for i in idx], float(x[tuple(idx)]), float(y[tuple(idx)])))
    return diffs


def run_case(case):
    import atomica as at
    import sciris as sc

    R = ref.Recs()
    if case["kind"] == "restart-corpus":
        from av import corpus

        spec = None
        P, pset, instr = corpus.build(dict(case, kind="corpus"))
        ps = pset
        fw = P.framework
        if "is derivative" in fw.pars.columns and any(str(x).strip().lower() == "y" for x in fw.pars["is derivative"]):
            return {"records": [], "stats": {"corpus_model_with_derivative_parameter": 1}, "nontrivial": False, "excluded": "derivative parameters are excluded by the property"}
        if any("rand" in str(f) for f in fw.pars["function"] if f is not None):
            return {"records": [], "stats": {"corpus_model_with_random_function": 1}, "nontrivial": False, "excluded": "stochastic parameter function"}
        R.count("corpus_cases")
    else:
        spec, ps = case["spec"], case["progspec"]
        P = gen.build_project(spec)
        pset = gen.build_progset(ps, P.framework, P.data) if ps is not None else None
        instr = gen.build_instructions(ps) if ps is not None else None
    parset = P.parsets[0]
    try:
        r0 = P.run_sim(parset, progset=pset, progset_instructions=instr)
    except Exception as e:
        if spec is None and type(e).__name__ == "BadInitialization":
            return {"records": [], "stats": {"corpus_bad_initialization": 1}, "nontrivial": False, "excluded": "perturbed databook cannot be initialised"}
        raise
    v0 = ref.View(r0)
    if v0.ill_posed_junctions():
        return {"records": [], "stats": {"illposed_runs": 1}, "nontrivial": False, "excluded": "ill-posed"}
    if any(not np.all(np.isfinite(np.asarray(c["vals"], dtype=float))) for c in v0.comps):
        # people that a start-up flush could not place (all proportions zero) are flagged with NaN by the library: such a run is
        # outside the property's domain, and its "state" cannot be saved
        return {"records": [], "stats": {"nonfinite_state_runs": 1}, "nontrivial": False, "excluded": "non-finite compartment (ill-posed start-up flush)"}
    tp = simcase.first_bad([p.vals for p in v0.pars.values() if not simcase._is_output_only(p)])
    if tp is not None:
        return {"records": [], "stats": {"nonfinite_parameter_runs": 1}, "nontrivial": False, "excluded": "non-finite parameter"}
    # programme start/stop years and stepped overwrite series are discontinuous in time: a grid point that differs in the
    # last bit can fall on the other side of such a date, so runs with programmes are only judged on bit-identical grids
    cont = spec is not None and continuous(spec) and ps is None and spec["meta"]["vclass"] in ("mild", "binding_limits", "empty", "zero")
    prev_res, prev_arrays, prev_t = r0, digest.result_arrays(r0), np.array(r0.model.t, dtype=float)
    prev_parset = parset
    nontrivial = False
    dt = spec["settings"]["dt"] if spec is not None else case["dt"]
    end = float(prev_t[-1])
    for depth, k in enumerate(case["chain"]):
        Y = float(prev_t[k])
        ps2 = sc.dcp(prev_parset)
        ps2.set_initialization(prev_res, Y)
        P.settings.update_time_vector(start=Y, end=end, dt=dt)
        try:
            r1 = P.run_sim(ps2, progset=pset, progset_instructions=instr)
        except Exception as e:
            R.bad("restart-runs", "C10:restart-fails[%s]" % type(e).__name__, {"error": str(e)[:300], "Y": Y})
            break
        B = digest.result_arrays(r1)
        t1 = B[("t",)]
        tail = prev_t[k : k + len(t1)]
        same_grid = len(tail) == len(t1) and np.all(tail == t1)
        if len(tail) != len(t1) or np.any(np.abs(tail - t1) > 1e-9):
            R.bad("restart-grid", "C10:restarted-grid-is-not-the-tail-of-the-original", {"tail": tail[:4].tolist(), "restarted": t1[:4].tolist()})
            break
        R.count("restarts_compared")
        if k == 0:
            R.count("restarts_at_the_first_time_point")
        if Y == 0.0:
            R.count("restarts_at_year_zero")
        if same_grid:
            R.count("restarts_bit_exact_grid")
        judge_all = same_grid or cont
        if not judge_all:
            R.count("restarts_only_first_index_judged")
        diffs = compare_tail(R, "restart", prev_arrays, B, k, exact=same_grid, judge_beyond_first=judge_all)
        if any(np.any(prev_arrays[key][..., k] != prev_arrays[key][..., 0]) for key in prev_arrays if key[0] == "comp"):
            nontrivial = True
        if diffs and not same_grid and diffs[0][1] is not None and diffs[0][1][-1] != 0:
            # the restarted grid differs from the tail of the original in the last bit (t enters parameter functions): is the
            # difference what this model does to *any* one-ulp change?  Restart once more from the saved state moved by one
            # unit in the last place and measure how far that run drifts from the restart
            ps3 = sc.dcp(ps2)
            ps3.initialization.values = {k_: np.nextafter(np.asarray(v_, dtype=float), np.inf) if not np.isscalar(v_) else float(np.nextafter(v_, np.inf)) for k_, v_ in ps3.initialization.values.items()}
            D = digest.result_arrays(P.run_sim(ps3, progset=pset, progset_instructions=instr))
            floor_ = max([1.0] + [float(np.nanmax(np.abs(np.where(np.isfinite(v), v, 0.0)))) for kk, v in B.items() if kk[0] in ("comp", "link") and v.size])

            def drift_(X, Y_, off):
                worst = 0.0
                for kk, v in Y_.items():
                    if kk[0] in ("comp", "link", "bins", "charac") and kk in X:
                        x = X[kk][..., off : off + v.shape[-1]]
                        if x.shape == v.shape:
                            with np.errstate(all="ignore"):
                                e_ = np.abs(x - v) / np.maximum(floor_, np.maximum(np.abs(x), np.abs(v)))
                            if e_.size and np.isfinite(e_).any():
                                worst = max(worst, float(np.nanmax(e_)))
                return worst

            d_restart, d_ulp = drift_(prev_arrays, B, k), drift_(D, B, 0)
            R.count("restarts_on_last_bit_different_grids_judged_against_the_models_own_sensitivity")
            if d_restart <= 100.0 * d_ulp:
                R.count("restart_drift_within_the_drift_of_a_one_ulp_change")
                diffs = []
        if diffs:
            what = str(diffs[0][0][0])
            idx = diffs[0][1]
            first = "first-index" if (idx is not None and idx[-1] == 0) else "later-index"
            feats = []
            if ps is not None:
                feats.append("programs")
            R.bad("restart-continues-trajectory", "C10:restart-differs[%s,%s,%s]" % (what, first, "chain%d" % depth), {"Y": Y, "k": k, "exact_grid": bool(same_grid), "first_differences": [list(map(str, d)) for d in diffs[:4]], "programs": ps is not None})
            break
        R.ok("restart-continues-trajectory")
        # ---- spreadsheet form
        if case["spreadsheet"] and depth == 0:
            try:
                ss = ps2.calibration_spreadsheet()
                fresh = at.ParameterSet(P.framework, P.data, "fresh")
                for par, d in (spec.get("yfactors", {}) if spec is not None else {}).items():
                    for pop, f in d.items():
                        fresh.pars[par].y_factor[pop] = f
                if (k + depth) % 2 == 0:
                    # the receiving parameter set already holds a saved state of another year (a working copy that was restarted
                    # before): the state in the file is the one that counts
                    fresh.set_initialization(prev_res, float(prev_t[0] if k != 0 else prev_t[-1]))
                    R.count("spreadsheet_loaded_into_a_parset_that_already_had_a_saved_state")
                fresh.load_calibration(ss)
                r2 = P.run_sim(fresh, progset=pset, progset_instructions=instr)
                C = digest.result_arrays(r2)
                R.count("spreadsheet_restarts_compared")
                # the saved state itself (compartments and their bins) to the 16 digits a spreadsheet stores
                d0 = compare_tail(R, "ss", {k_: v for k_, v in B.items() if k_[0] in ("comp", "bins", "t")}, {k_: v for k_, v in C.items() if k_[0] in ("comp", "bins", "t")}, 0, exact=False, judge_beyond_first=False, rtol=1e-15)
                # beyond the first index a state that differs in the 16th digit is propagated by the model: function parameters
                # (a ratio of two nearly empty compartments has no bounded condition number) are judged through the stocks and
                # flows they drive, to 1e-9 of the model's scale
                fpars = {n for n, f in P.framework.pars["function"].items() if isinstance(f, str)}
                d1 = compare_tail(R, "ss", B, C, 0, exact=False, judge_beyond_first=True, rtol=1e-9, skip_pars=fpars, model_scale=True) if cont else []
                if d1 and not d0:
                    # is that what the model does to *any* state that differs in the 16th digit?  Restart once more from the saved
                    # state moved by one unit in the last place and measure how far that run drifts from the direct restart
                    ps3 = sc.dcp(ps2)
                    ps3.initialization.values = {k_: np.nextafter(np.asarray(v_, dtype=float), np.inf) if not np.isscalar(v_) else float(np.nextafter(v_, np.inf)) for k_, v_ in ps3.initialization.values.items()}
                    r3 = P.run_sim(ps3, progset=pset, progset_instructions=instr)
                    D = digest.result_arrays(r3)

                    def drift(X):
                        worst = 0.0
                        floor_ = max([1.0] + [float(np.nanmax(np.abs(np.where(np.isfinite(v), v, 0.0)))) for kk, v in B.items() if kk[0] in ("comp", "link") and v.size])
                        for kk, v in B.items():
                            if kk[0] in ("comp", "link", "bins", "charac") and kk in X and X[kk].shape == v.shape:
                                with np.errstate(all="ignore"):
                                    e_ = np.abs(X[kk] - v) / np.maximum(floor_, np.maximum(np.abs(X[kk]), np.abs(v)))
                                if e_.size and np.isfinite(e_).any():
                                    worst = max(worst, float(np.nanmax(e_)))
                        return worst

                    d_ss, d_ulp = drift(C), drift(D)
                    R.count("spreadsheet_restarts_judged_against_the_models_own_sensitivity")
                    if d_ss <= 100.0 * d_ulp:
                        R.count("spreadsheet_restart_drift_within_the_drift_of_a_one_ulp_change")
                        d1 = []
                    else:
                        d1 = d1 + [("drift", None, d_ss, d_ulp)]
                if d0:
                    R.bad("spreadsheet-restart", "C10:spreadsheet-restart-initial-state-differs[%s]" % str(d0[0][0][0]), {"first_differences": [list(map(str, d)) for d in d0[:4]]})
                elif d1:
                    R.bad("spreadsheet-restart", "C10:spreadsheet-restart-trajectory-differs[%s]" % str(d1[0][0][0]), {"first_differences": [list(map(str, d)) for d in d1[:4]]})
                else:
                    R.ok("spreadsheet-restart")
            except Exception as e:
                if "This sheet is too large" in str(e):
                    # a saved state with more duration bins than a worksheet has columns (16384) has no spreadsheet form: a limit of
                    # the file format (reached here through a hostile calibration factor on a duration), counted and not judged
                    R.count("saved_state_wider_than_a_worksheet")
                else:
                    R.bad("spreadsheet-restart", "C10:spreadsheet-restart-fails[%s]" % type(e).__name__, {"error": str(e)[:300]})
        prev_res, prev_arrays, prev_t, prev_parset = r1, B, t1, ps2
    sample = dict(simprop.sample_of(spec)) if spec is not None else dict(corpus.describe(case))
    sample.update({"chain": case["chain"], "programs": ps is not None, "spreadsheet": case["spreadsheet"]})
    return {"records": R.records(), "stats": R.stats, "nontrivial": bool(nontrivial), "sample": sample}

"""C07 - initial state matches the databook or the run is refused; characteristic sums stay consistent."""

import numpy as np

from av import attach, gen, ref
from av.props import simprop

MANIFEST_ENTRY = {
    "category": "exploration",
    "technique": "hooked snapshot of the compartments right after initialisation (before the junction flush) compared with the databook quantities; exception-type oracle for refused runs; independent non-negative least-squares feasibility solve; online monitor of dynamic characteristic values at every step and offline check of reported characteristics; generated inclusion structures and shipped (corpus) models with scaled / off-by-one set-up data",
    "text": "Generated characteristic/compartment inclusion structures (nested characteristics, denominators, determined, under- and over-determined systems, zero defaults, junction members) receive databook values that are consistent, inconsistent by 1e-9 ... 1 (straddling the 1e-6 tolerance) or imply negative compartments, with calibration factors and start years between data years. Accepted run: every initialisation quantity is reproduced by the pre-flush compartment sizes within 1e-6 per member (+1e-6), all sizes >= 0. Refused run: the exception is BadInitialization exactly, and the callers' contracts hold (calibration objective returns inf). An independent scipy NNLS solve decides whether any non-negative assignment reproduces the data; if none does the run must have been refused. Throughout each accepted run every reported characteristic equals the sum of its members over its denominator (0 below 1e-6 people), and the values the integrator feeds to parameter functions (hooked at every update_pars) equal the same sums. Shipped models (several population types, real denominators) are initialised as shipped, with all set-up quantities scaled consistently, or with one of them pushed off; generated data classes include a fraction of the whole above 1 (directly or through its calibration factor). The Characteristics sheet is written in reversed order for a third of the frameworks (characteristics used before they are defined). A fifth of the set-up quantities carry a set-up weight other than 1 (0.25, 0.5, 2, 3).",
    "note": "The converse (refused although a solution exists; possible for under-determined systems because the minimum-norm solution may be negative) is not claimed by the property and only counted.",
}

META = {
    "level": "exploration",
    "rule": "cases = random inclusion structures x data consistency class; non-trivial = the run of the check contains accepted and refused cases (per case: the system has >= 2 initialisation quantities); distinct = spec fingerprints",
    "deciding_counters": ["accepted_runs", "refused_runs", "init_quantities_checked", "characteristic_arrays_checked"],
    "assumptions": ["tolerance (m+1)*1e-6 for a quantity with m member compartments: the code accepts 1e-6 per quantity and then clips compartments in [-1e-6, 0) to 0"],
    "case_timeout": 120,
}

N = {"quick": 640, "thorough": 24000}
DELTAS = [0.0, 0.0, 0.0, 1e-9, 1e-7, 1e-5, 1e-3, 1.0]


def count(tier, seed):
    return N[tier]


def make_case(tier, seed, index):
    rng = gen.rng_for(seed, 7, index)
    if index % simprop.CORPUS_EVERY == simprop.CORPUS_EVERY - 1:
        # library / fixture model (several population types, real characteristic structures with denominators); its
        # set-up quantities are scaled consistently, or one of them is pushed off by delta
        from av import corpus

        case = corpus.make_case(rng, max_steps=6)
        case.update({"kind": "corpus", "mode": "none", "progbook": None, "init_class": str(rng.choice(["as-shipped", "scaled", "scaled", "one-off", "one-off", "one-off"])), "init_factor": float(rng.choice([0.5, 2.0, 1.0 + 1e-9, 1.0 + 1e-5, 1.001, 1.3, 0.7, 3.0])), "init_pick": float(rng.random())})
        return case
    pf = {"n_junctions": (0, 2), "p_junction_init": 0.5, "p_timed": 0.25, "n_characs": (0, 0), "p_function": 0.3, "steps": (2, 8), "p_yfactor": 0.0, "n_pops": (1, 2)}
    spec = gen.gen_spec(rng, pf)
    ords = [c["name"] for c in spec["comps"] if c["kind"] == "ord"]
    juncs = [c["name"] for c in spec["comps"] if c["kind"] == "junc"]
    members_pool = ords + juncs
    pops = spec["pops"]
    # true state
    truth = {pop: {c: (0.0 if rng.random() < 0.15 else float(10 ** rng.uniform(0, 4))) for c in members_pool} for pop in pops}
    # characteristics: nested, with optional denominators
    characs = []
    flat = {}
    for i in range(int(rng.integers(1, 5))):
        k = int(rng.integers(1, min(4, len(members_pool)) + 1))
        comp_members = [str(x) for x in rng.permutation(members_pool)[:k]]
        members = list(comp_members)
        if characs and rng.random() < 0.35:
            inner = characs[int(rng.integers(0, len(characs)))]
            if inner["denominator"] is None:
                members = [inner["name"]] + [m for m in comp_members if m not in flat[inner["name"]]]
        fl = []
        for m in members:
            fl += flat[m] if m in flat else [m]
        fl = list(dict.fromkeys(fl))
        name = "ch%d" % i
        flat[name] = fl
        characs.append({"name": name, "components": members, "denominator": None, "db": False})
    total = {"name": "alive", "components": list(members_pool), "denominator": None, "db": False}
    flat["alive"] = list(members_pool)
    characs.append(total)
    # which quantities are entered in the databook
    mode = str(rng.choice(["determined", "under", "over", "mixed", "one-free"]))
    for c in spec["comps"]:
        if c["kind"] in ("ord", "junc"):
            c["db"] = False
            c["setup"] = 0
    entered = []
    free_comp = None
    if mode == "determined":
        for c in spec["comps"]:
            if c["kind"] in ("ord", "junc"):
                c["db"], c["setup"] = True, 1
                entered.append(c["name"])
    elif mode == "one-free":
        # every compartment but one is entered, and so is the total: the free compartment is total - sum(others)
        free_comp = ords[int(rng.integers(0, len(ords)))]
        for c in spec["comps"]:
            if c["kind"] in ("ord", "junc") and c["name"] != free_comp:
                c["db"], c["setup"] = True, 1
                entered.append(c["name"])
        total["db"], total["setup"] = True, 1
        entered.append("alive")
    else:
        for c in spec["comps"]:
            if c["kind"] in ("ord", "junc") and rng.random() < {"under": 0.35, "over": 0.8, "mixed": 0.5}[mode]:
                c["db"], c["setup"] = True, 1
                entered.append(c["name"])
        for ch in characs:
            if rng.random() < {"under": 0.4, "over": 0.9, "mixed": 0.6}[mode]:
                ch["db"], ch["setup"] = True, 1
                entered.append(ch["name"])
    # a fraction characteristic used for initialisation (denominator must be in the databook)
    if mode != "one-free" and rng.random() < 0.4 and len(members_pool) >= 2:
        den = "alive"
        den_cands = [c for c in ords if all(truth[pop][c] > 0 for pop in pops)]
        if den_cands and rng.random() < 0.35:
            # the denominator is a compartment (allowed by the framework rules): it has to be in the databook
            den = den_cands[int(rng.integers(0, len(den_cands)))]
            for c in spec["comps"]:
                if c["name"] == den:
                    c["db"] = True
                    if den not in entered:
                        c["setup"] = 1
                        entered.append(den)
        else:
            total["db"] = True
            if "alive" not in entered and rng.random() < 0.7:
                total["setup"] = 1
                entered.append("alive")
            elif "alive" not in entered:
                total["setup"] = 0
        num = [str(x) for x in rng.permutation(members_pool)[: int(rng.integers(1, len(members_pool)))]]
        characs.append({"name": "frac", "components": num, "denominator": den, "db": True, "setup": 1})
        flat["frac"] = num
        entered.append("frac")
    # a quantity in the databook that is not used for initialisation (setup weight 0)
    for ch in characs:
        if not ch["db"] and rng.random() < 0.2:
            ch["db"], ch["setup"] = True, 0
    for base in spec["characs"]:
        if base["name"] == "prev":
            characs.append({"name": "prev", "components": list(base["components"]), "denominator": "alive", "db": False, "setup": 0})
            flat["prev"] = list(base["components"])
    # a set-up weight is any positive number (it weights the quantity's row in the least-squares system): a fifth of the set-up
    # quantities get one other than 1
    for q_ in list(spec["comps"]) + characs:
        if q_.get("setup") == 1 and rng.random() < 0.2:
            q_["setup"] = float(rng.choice([0.25, 0.5, 2.0, 3.0]))
    spec["characs"] = characs
    if rng.random() < 0.3:
        spec["charac_sheet_order"] = "reversed"  # nested characteristics and denominators are then defined *after* their users
    # data values
    cls = str(rng.choice(["consistent", "consistent", "inconsistent", "negative"]))
    if mode == "one-free":
        cls = str(rng.choice(["consistent", "free-slightly-negative", "free-slightly-negative"]))
        if cls == "free-slightly-negative":
            eps = float(rng.choice([1e-9, 1e-7, 1e-5, 1e-3, 0.5]))
            for pop in pops:
                truth[pop][free_comp] = -eps
    if mode in ("determined", "under") and cls == "inconsistent":
        cls = "negative" if rng.random() < 0.5 else "consistent"
    delta = float(DELTAS[int(rng.integers(0, len(DELTAS)))]) if cls == "inconsistent" else 0.0
    yf = {}
    years = spec["years"]
    start = spec["settings"]["start"]
    values = {k: v for k, v in spec["values"].items() if k not in members_pool}
    names_db = [c["name"] for c in spec["comps"] if c.get("db")] + [ch["name"] for ch in characs if ch.get("db")]
    for q in names_db:
        values[q] = {}
        y = float(rng.choice([1.0, 1.0, 0.5, 2.0])) if rng.random() < 0.3 else 1.0
        if y != 1.0:
            yf[q] = {pop: y for pop in pops}
        for pop in pops:
            if q in flat:
                v = sum(truth[pop][m] for m in flat[q])
                ch = [c for c in characs if c["name"] == q][0]
                if ch["denominator"]:
                    d = sum(truth[pop][m] for m in flat.get(ch["denominator"], [ch["denominator"]]))
                    v = v / d if d > 0 else 0.0
            else:
                v = truth[pop][q]
            if cls == "inconsistent" and q in entered and rng.random() < 0.5:
                v = v + delta * float(rng.choice([-1, 1]))
            if cls == "negative" and q in flat and q in entered and rng.random() < 0.5 and q != "frac":
                if rng.random() < 0.5:
                    v = v * float(rng.uniform(0.0, 0.6))  # a sum smaller than its entered parts implies negative compartments
                else:
                    # ... by a small amount only: the missing people are a handful of 1e-5 .. 0.5, and compartments that the
                    # other entries pin to zero would have to go slightly negative
                    v = v - float(rng.choice([1e-5, 1e-3, 0.5])) - sum(truth[pop][m] for m in flat[q] if m not in entered)
            v = max(v, 0.0) / y
            if rng.random() < 0.3:
                # value at the start year obtained by interpolation between two data years
                y0 = float(np.floor(start)) - 1.0
                y1 = y0 + 3.0
                w = (start - y0) / (y1 - y0)
                a = v * float(rng.uniform(0.5, 1.0))
                b = (v - (1 - w) * a) / w if w > 0 else v
                if b >= 0:
                    values[q][pop] = {"t": [y0, y1], "v": [gen._f(a) if False else a, b]}
                    continue
            values[q][pop] = {"a": v}
    # a fraction of the whole population above 1 (directly, or through its calibration factor): no assignment exists, so the
    # run has to be refused - silently capping it at 100% would start the run from other numbers than the databook's
    if "frac" in entered and rng.random() < 0.2:
        cls = "fraction-above-one"
        pop = pops[int(rng.integers(0, len(pops)))]
        if rng.random() < 0.5:
            values["frac"][pop] = {"a": float(rng.uniform(1.05, 2.5)) / (yf.get("frac", {}).get(pop, 1.0))}
        else:
            values["frac"][pop] = {"a": float(rng.uniform(0.45, 0.9))}
            yf["frac"] = dict(yf.get("frac", {p_: 1.0 for p_ in pops}))
            yf["frac"][pop] = float(rng.choice([2.5, 3.0, 4.0]))
    spec["values"] = values
    spec["yfactors"] = yf
    spec["years"] = sorted(set(years) | {float(np.floor(start)) - 1.0, float(np.floor(start)) + 2.0})
    spec["meta"]["init"] = {"mode": mode, "class": cls, "delta": delta, "entered": entered}
    return {"kind": "generated", "spec": spec}


def init_targets(P, fw, pop):
    """(quantity name, member compartments, target value) for every initialisation quantity of a population."""
    ps = P.parsets[0]
    t0 = P.settings.sim_start
    out = []
    ptype = P.data.pops[pop]["type"] if pop in P.data.pops else None
    for df, kind in ((fw.characs, "charac"), (fw.comps, "comp")):
        for name, row in df.iterrows():
            if not row["setup weight"] > 0:
                continue
            if ptype is not None and "population type" in df.columns and row["population type"] != ptype:
                continue
            par = ps.pars[name]
            from av.parref import interp_series

            b = float(interp_series(par.ts[pop], [t0])[0]) * float(par.y_factor[pop]) * float(par.meta_y_factor)
            if kind == "charac":
                members = fw.get_charac_includes(name)
                den = row["denominator"]
                if isinstance(den, str):
                    dp = ps.pars[den]
                    b *= float(interp_series(dp.ts[pop], [t0])[0]) * float(dp.y_factor[pop]) * float(dp.meta_y_factor)
            else:
                members = [name]
            out.append((name, members, b))
    return out


def run_case(case):
    import atomica as at
    import atomica.model as M
    from scipy.optimize import nnls

    R = ref.Recs()
    spec = case.get("spec")
    if spec is None:
        from av import corpus

        P, _, _ = corpus.build(case)
        R.count("corpus_cases")
        ps0 = P.parsets[0]
        setup = [n for df in (P.framework.characs, P.framework.comps) for n, row in df.iterrows() if row["setup weight"] > 0 and n in ps0.pars]
        if case["init_class"] == "scaled":
            for n in setup:
                if not isinstance(P.framework.characs.loc[n]["denominator"] if n in P.framework.characs.index else None, str):  # fractions keep their value
                    ps0.pars[n].meta_y_factor = case["init_factor"]
        elif case["init_class"] == "one-off" and setup:
            n = setup[int(case["init_pick"] * len(setup)) % len(setup)]
            pops_ = list(ps0.pars[n].pops)
            ps0.pars[n].y_factor[pops_[int(case["init_pick"] * 97) % len(pops_)]] = case["init_factor"]
    else:
        P = gen.build_project(spec)
    fw = P.framework
    snaps = {}
    charac_log = {"n": 0, "bad": None}

    def pre_flush(model):
        snaps["pre"] = {(pop.name, c.name): float(np.sum(getattr(c, "_vals")[:, 0])) if getattr(c, "_vals", None) is not None and np.ndim(getattr(c, "_vals")) == 2 else float(c.vals[0]) for pop in model.pops for c in pop.comps}

    def post_pars(tok, out, model):
        ti = model._t_index
        for pop in model.pops:
            for ch in pop.characs:
                v = getattr(ch, "_vals", None)
                if v is None:
                    continue
                num = sum(float(c[ti]) for c in ch.get_included_comps())
                if ch.denominator is not None:
                    den = float(ch.denominator[ti])
                    exp = num / den if den > 0 else (0.0 if num < 1e-6 else np.inf)
                else:
                    exp = num
                charac_log["n"] += 1
                if not (abs(float(v[ti]) - exp) <= 1e-9 * max(1.0, abs(exp)) or (np.isinf(exp) and np.isinf(v[ti]))):
                    if charac_log["bad"] is None:
                        charac_log["bad"] = {"charac": (pop.name, ch.name), "index": int(ti), "live_value": float(v[ti]), "expected": float(exp)}

    accepted = None
    exc = None
    with attach.Attach() as A:
        h1 = A.wrap(M.Model, "flush_junctions", pre=pre_flush)
        h2 = A.wrap(M.Model, "update_pars", post=post_pars)
        try:
            result = P.run_sim(P.parsets[0])
            accepted = True
        except BaseException as e:  # noqa
            if isinstance(e, (KeyboardInterrupt, SystemExit)):
                raise
            accepted = False
            exc = e
    meta = spec["meta"]["init"] if spec is not None else {"mode": "corpus", "class": "%s x%g" % (case["init_class"], case["init_factor"] if case["init_class"] != "as-shipped" else 1.0), "model": case["framework"].split("/")[-1]}
    R.count("mode[%s]" % meta["mode"])
    R.count("class[%s]" % (meta["class"] if spec is not None else case["init_class"]))
    pops = spec["pops"] if spec is not None else list(P.data.pops.keys())
    junc_names = [c["name"] for c in spec["comps"] if c["kind"] == "junc"] if spec is not None else [n for n, row in fw.comps.iterrows() if row["is junction"] == "y"]
    # independent feasibility per population
    infeasible = False
    feas_info = {}
    all_comps = [c["name"] for c in spec["comps"] if c["kind"] in ("ord", "junc")] if spec is not None else None
    for pop in pops:
        comps = all_comps if all_comps is not None else [n for n, row in fw.comps.iterrows() if row["population type"] == P.data.pops[pop]["type"]]
        tg = init_targets(P, fw, pop)
        if not tg:
            continue
        Amat = np.zeros((len(tg), len(comps)))
        b = np.zeros(len(tg))
        for i, (name, members, val) in enumerate(tg):
            for m in members:
                Amat[i, comps.index(m)] = 1.0
            b[i] = val
        x, rnorm = nnls(Amat, b)
        feas_info[pop] = float(rnorm)
        if rnorm > 2 * np.sqrt(len(tg)) * 1e-6 * (1 + len(comps)):
            infeasible = True
    if not accepted:
        R.count("refused_runs")
        if type(exc).__name__ != "BadInitialization":
            import traceback

            R.bad("refused-with-dedicated-error", "C07:refused-with-%s" % type(exc).__name__, {"error": repr(exc)[:300], "init": meta})
        else:
            R.ok("refused-with-dedicated-error")
            if not infeasible:
                R.count("refused_although_nnls_finds_solution")
        # callers' contract: the calibration objective treats a refused run as 'reject these parameters'
        try:
            import atomica.calibration as C

            pa = [p for p in spec["pars"] if p["db"] and not p["timed"]] if spec is not None else []
            if pa:
                val = C._calculate_objective([1.0], pars_to_adjust=[(pa[0]["name"], pops[0], 0.1, 10)], output_quantities=[(comps[0], pops[0], 1.0, "fractional")], parset=P.parsets[0].copy(), project=P)
                if val == np.inf:
                    R.ok("calibration-rejects-bad-initialization")
                else:
                    R.bad("calibration-rejects-bad-initialization", "C07:calibration-objective-not-inf", {"value": repr(val)})
        except Exception as e:
            if type(e).__name__ == "BadInitialization":
                R.bad("calibration-rejects-bad-initialization", "C07:calibration-propagates-BadInitialization", {})
            else:
                R.count("calibration_probe_not_applicable[%s]" % type(e).__name__)
        return {"records": R.records(), "stats": R.stats, "nontrivial": True, "sample": {"init": meta, "verdict": "refused"}}

    R.count("accepted_runs")
    if infeasible:
        R.bad("infeasible-data-refused", "C07:accepted-although-no-nonnegative-solution[%s]" % meta["class"], {"nnls_residual": feas_info, "init": meta})
    else:
        R.ok("infeasible-data-refused")
    view = ref.View(result)
    pre = snaps.get("pre")
    for pop in pops:
        for name, members, val in init_targets(P, fw, pop):
            if pre is not None:
                got = sum(pre[(pop, m)] for m in members)
                src = "pre-flush"
            else:
                if any(m in junc_names for m in members):
                    R.inc("initial-state=databook")
                    continue
                got = sum(float(c["vals"][0]) for c in view.comps if c["pop"] == pop and c["name"] in members)
                src = "result"
            R.count("init_quantities_checked")
            tol = (len(members) + 1) * 1e-6
            if not abs(got - val) <= tol + 1e-12 * abs(val):
                R.bad("initial-state=databook", "C07:initial-quantity-off[%s,%s]" % (meta["mode"], "fraction" if (name == "frac" or (name in fw.characs.index and isinstance(fw.characs.loc[name]["denominator"], str))) else "number"), {"quantity": name, "pop": pop, "target": val, "got": got, "members": members, "source": src, "init": meta})
            else:
                R.ok("initial-state=databook")
    for c in view.comps:
        if c["vals"][0] < 0 or (pre is not None and pre[c["key"]] < 0):
            R.bad("initial-nonnegative", "C07:negative-initial-compartment", {"comp": c["key"], "value": float(c["vals"][0])})
    # characteristics = sums at every index (reported convention)
    for pop in result.model.pops:
        for ch in pop.characs:
            num = np.zeros(view.T)
            for cc in ch.get_included_comps():
                num = num + np.asarray(cc.vals, dtype=float)
            row = fw.characs.loc[ch.name]
            if isinstance(row["denominator"], str):
                dn = row["denominator"]
                if dn in fw.comps.index:
                    den = np.asarray([c for c in view.comps if c["key"] == (pop.name, dn)][0]["vals"])
                else:
                    den = np.zeros(view.T)
                    for m in fw.get_charac_includes(dn):
                        den = den + [c for c in view.comps if c["key"] == (pop.name, m)][0]["vals"]
                with np.errstate(all="ignore"):
                    exp = np.where(den > 0, num / np.where(den > 0, den, 1.0), np.inf)
                exp = np.where(num < 1e-6, 0.0, exp)
            else:
                exp = num
            got = np.asarray(ch.vals, dtype=float)
            R.count("characteristic_arrays_checked")
            ok = np.isclose(got, exp, rtol=1e-9, atol=1e-12) | (np.isinf(got) & np.isinf(exp))
            if not np.all(ok):
                i = int(np.argmax(~ok))
                R.bad("characteristic=sum/denominator", "C07:reported-characteristic-differs[%s]" % ("fraction" if isinstance(row["denominator"], str) else "number"), {"charac": (pop.name, ch.name), "index": i, "reported": float(got[i]), "expected": float(exp[i])})
            else:
                R.ok("characteristic=sum/denominator")
    if h2:
        R.count("live_characteristic_values_checked", charac_log["n"])
        if charac_log["bad"] is not None:
            R.bad("live-characteristic=sum/denominator", "C07:live-characteristic-differs", charac_log["bad"])
        elif charac_log["n"]:
            R.ok("live-characteristic=sum/denominator", charac_log["n"])
    if spec is None:
        return {"records": R.records(), "stats": R.stats, "nontrivial": True, "sample": {"init": meta, "verdict": "accepted"}}
    s = dict(simprop.sample_of(spec))
    s["init"] = meta
    s["characs"] = [(c["name"], c["components"], c["denominator"], c.get("db"), c.get("setup")) for c in spec["characs"]]
    return {"records": R.records(), "stats": R.stats, "nontrivial": True, "sample": s}


def extra_evidence(cases):
    acc = sum(1 for c in cases if (c.get("stats") or {}).get("accepted_runs"))
    ref_ = sum(1 for c in cases if (c.get("stats") or {}).get("refused_runs"))
    return {"accepted_cases": acc, "refused_cases": ref_}

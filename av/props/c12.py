"""C12 - program outcomes are a coverage-weighted average of baseline and combinations."""

import itertools

import numpy as np

from av import attach, ref

MANIFEST_ENTRY = {
    "category": "exploration",
    "technique": "runtime contracts on real Covout.get_outcome calls plus marginal probes: the same Covout is rebuilt through the public constructor with indicator outcomes for every combination, which reads the weight distribution off the real code",
    "text": "For generated Covouts (1-5 programs, additive / nested / random coverage interaction, coverage vectors with sums below, at and above 1, exact 0s and 1s, ties; outcomes above, below and mixed relative to baseline; explicit interaction outcomes on random subsets) the real get_outcome is checked for: bounds by min/max of baseline and combination outcomes, baseline at zero coverage, the single-program formula, marginals of the implied weights equal to each coverage and total weight in [0,1] (via indicator outcomes given as explicit interactions for every combination), monotonicity when all deltas share a sign, and the combination-outcome rule (explicit value, else member farthest from baseline). The bound contract is also attached to every call the integrator makes in library model runs. 15% of the explicit interaction outcomes are exactly the baseline. 12% of the Covouts have whole-number outcomes and baselines given as Python / numpy integers. A third of the Covouts are edited after construction (baseline, an outcome; update_outcomes()) and must answer like a freshly built object.",
    "note": "Only the algebraic properties stated in the property are tested, not a particular reading of the additive spill-over rule.",
}

META = {
    "level": "exploration",
    "rule": "cases = batches of 120 random Covouts x 6 coverage vectors each, plus library runs with the bound contract attached; a batch is non-trivial when it contains vectors with >= 2 non-zero coverages and reaches the additive sum>1 branch; distinct = batch fingerprints",
    "deciding_counters": ["outcome_calls_checked", "marginal_probes", "additive_above_one_vectors"],
    "assumptions": ["coverages in [0,1]"],
    "case_timeout": 300,
}

N_BATCH = {"quick": 64, "thorough": 2000}
LIB = ["sir", "tb", "hypertension", "udt", "usdt", "hiv", "diabetes", "cervicalcancer"]


def count(tier, seed):
    return N_BATCH[tier] + len(LIB)


def make_case(tier, seed, index):
    if index < N_BATCH[tier]:
        return {"kind": "batch", "seed": [seed, 12, index], "n": 120}
    return {"kind": "library", "name": LIB[index - N_BATCH[tier]]}


def cov_vector(rng, n):
    u = rng.random()
    if u < 0.15:
        c = rng.choice([0.0, 1.0, 0.5], size=n)
    elif u < 0.3:
        c = rng.dirichlet(np.ones(n))  # sums to exactly ~1
    elif u < 0.45:
        c = np.full(n, float(rng.uniform(0, 1)))  # ties
    elif u < 0.6:
        c = rng.uniform(0, 1.0 / n, size=n)  # sum < 1
    else:
        c = rng.uniform(0, 1, size=n)
    mask = rng.random(n) < 0.15
    c = np.where(mask, 0.0, c)
    if rng.random() < 0.1:
        c[int(rng.integers(0, n))] = 1.0
    return np.clip(c, 0, 1)


def combos(names):
    for r in range(1, len(names) + 1):
        for s in itertools.combinations(names, r):
            yield frozenset(s)


def check_bounds(R, covout, cov, y, origin):
    R.count("outcome_calls_checked")
    vals = [covout.baseline] + [covout.baseline + d for d in np.asarray(covout._combination_outcomes).ravel()] if hasattr(covout, "_combination_outcomes") else None
    if vals is None:
        R.inc("outcome-within-bounds")
        return
    lo, hi = min(vals), max(vals)
    tol = 1e-12 * max(1.0, abs(lo), abs(hi))
    if not (np.isfinite(y) and lo - tol <= y <= hi + tol):
        R.bad("outcome-within-bounds", "C12:outcome-outside-bounds[%s,n=%d]" % (covout.cov_interaction, covout.n_progs), {"origin": origin, "coverage": {k: float(np.ravel(v)[0]) for k, v in cov.items() if k in covout.progs}, "outcome": float(y), "lo": lo, "hi": hi, "baseline": covout.baseline, "progs": dict(covout.progs), "imp": covout.imp_interaction})
    else:
        R.ok("outcome-within-bounds")


def run_batch(case, R):
    import atomica as at

    rng = np.random.default_rng(case["seed"])
    samples = []
    multi = above = False
    for i in range(case["n"]):
        n = int(rng.integers(1, 6))
        names = ["p%d" % k for k in range(n)]
        base = float(rng.choice([0.0, 0.2, 1.0, 5.0, -1.0]))
        mode = rng.choice(["above", "below", "mixed", "ties"])
        if mode == "above":
            outs = base + rng.uniform(0, 2, size=n)
        elif mode == "below":
            outs = base - rng.uniform(0, 2, size=n)
        elif mode == "ties":
            outs = base + np.full(n, float(rng.uniform(-1, 1)))
        else:
            outs = base + rng.uniform(-2, 2, size=n)
        if rng.random() < 0.1:
            outs[int(rng.integers(0, n))] = base
        progs = {k: float(v) for k, v in zip(names, outs)}
        integer_typed = bool(rng.random() < 0.12)
        if integer_typed:
            # whole-number outcomes and baseline given as integers (Python or numpy): explicit interaction outcomes are still real numbers
            base = int(rng.integers(-1, 4))
            ityp = int if rng.random() < 0.5 else np.int64
            progs = {k: ityp(base + int(d)) for k, d in zip(names, rng.integers(-3, 4, size=n))}
            outs = np.array([float(v) for v in progs.values()])
            if ityp is np.int64 and rng.random() < 0.5:
                base = np.int64(base)
            R.count("covouts_with_integer_typed_outcomes")
        inter = str(rng.choice(["additive", "nested", "random"]))
        # explicit interactions on a random subset of combinations
        imp = None
        explicit = {}
        if n >= 2 and rng.random() < 0.5:
            allc = [c for c in combos(names) if len(c) >= 2]
            for c in allc:
                if rng.random() < 0.4:
                    if mode == "above":
                        explicit[c] = base + float(rng.uniform(0, 3))
                    elif mode == "below":
                        explicit[c] = base - float(rng.uniform(0, 3))
                    else:
                        explicit[c] = base + float(rng.uniform(-3, 3))
                    if integer_typed:
                        explicit[c] = float(base) + float(rng.integers(-5, 6)) / 2.0
                    if rng.random() < 0.15:
                        explicit[c] = base  # antagonistic programmes: the combination is exactly back at the baseline (zero delta)
            if explicit:
                imp = ",".join("%s=%r" % ("+".join(sorted(c)), v) for c, v in explicit.items())
        co = at.programs.Covout(par="par", pop="pop", progs=progs, cov_interaction=inter, imp_interaction=imp, baseline=base)

        # combination-outcome rule: explicit value where given, else member farthest from baseline
        table = {}
        order = list(co._cached_progs.keys()) if hasattr(co, "_cached_progs") else None
        if order is not None and hasattr(co, "combinations"):
            for row, val in zip(co.combinations.astype(bool), np.asarray(co._combination_outcomes).ravel()):
                table[frozenset(np.array(order)[row])] = base + float(val)
            okrule = True
            for c in combos(names):
                if c in explicit:
                    exp = explicit[c]
                else:
                    ds = [progs[k] - base for k in c]
                    exp = base + max(ds, key=lambda d: abs(d)) if len(set(abs(d) for d in ds)) == len(ds) else None
                    if exp is None:
                        # ties in |delta|: any member at maximal distance is acceptable
                        m = max(abs(d) for d in ds)
                        if not any(abs(table[c] - (base + d)) < 1e-12 for d in ds if abs(abs(d) - m) < 1e-15):
                            okrule = False
                        continue
                if abs(table[c] - exp) > 1e-9 * max(1.0, abs(exp)):
                    okrule = False
                    R.bad("combination-outcome-rule", "C12:combination-outcome[%s]" % ("explicit" if c in explicit else "best"), {"combo": sorted(c), "got": table[c], "expected": exp, "progs": progs, "baseline": base, "imp": imp})
                    break
            if okrule:
                R.ok("combination-outcome-rule")
        else:
            R.inc("combination-outcome-rule")

        # indicator Covouts for the marginal probes (public constructor only)
        probes = {}
        if n >= 2:
            for k in names:
                imp_k = ",".join("%s=%d" % ("+".join(sorted(c)), 1 if k in c else 0) for c in combos(names) if len(c) >= 2)
                probes[k] = at.programs.Covout(par="par", pop="pop", progs={m: (1.0 if m == k else 0.0) for m in names}, cov_interaction=inter, imp_interaction=imp_k, baseline=0.0)
            imp_any = ",".join("%s=1" % "+".join(sorted(c)) for c in combos(names) if len(c) >= 2)
            probes["*"] = at.programs.Covout(par="par", pop="pop", progs={m: 1.0 for m in names}, cov_interaction=inter, imp_interaction=imp_any, baseline=0.0)

        for j in range(6):
            c = cov_vector(rng, n)
            cov = {k: np.array([v]) for k, v in zip(names, c)}
            y = co.get_outcome(cov)
            check_bounds(R, co, cov, y, "direct")
            nz = int(np.sum(c > 0))
            if nz >= 2:
                multi = True
            if inter == "additive" and c.sum() > 1 and n >= 2:
                R.count("additive_above_one_vectors")
                above = True
            # zero coverage
            if j == 0:
                y0 = co.get_outcome({k: np.array([0.0]) for k in names})
                if abs(y0 - base) > 1e-12 * max(1.0, abs(base)):
                    R.bad("zero-coverage=baseline", "C12:zero-coverage-not-baseline[%s]" % inter, {"outcome": float(y0), "baseline": base})
                else:
                    R.ok("zero-coverage=baseline")
                # single program covered
                k = names[int(rng.integers(0, n))]
                cv = float(rng.uniform(0, 1))
                y1 = co.get_outcome({m: np.array([cv if m == k else 0.0]) for m in names})
                exp = base + cv * (progs[k] - base)
                if abs(y1 - exp) > 1e-12 * max(1.0, abs(exp)):
                    R.bad("single-program", "C12:single-program-formula[%s,n=%d]" % (inter, n), {"program": k, "coverage": cv, "outcome": float(y1), "expected": exp, "progs": progs, "baseline": base, "imp": imp})
                else:
                    R.ok("single-program")
            # marginals
            if probes:
                R.count("marginal_probes")
                tot = probes["*"].get_outcome(cov)
                if not (-1e-12 <= tot <= 1 + 1e-12):
                    R.bad("weights-form-distribution", "C12:total-weight-outside-[0,1][%s,n=%d]" % (inter, n), {"coverage": c.tolist(), "one_minus_w_empty": float(tot)})
                else:
                    R.ok("weights-form-distribution")
                for k, ck in zip(names, c):
                    mk = probes[k].get_outcome(cov)
                    if abs(mk - ck) > 1e-9:
                        regime = "sum>1" if c.sum() > 1 else "sum<=1"
                        R.bad("marginal=coverage", "C12:marginal-differs-from-coverage[%s,%s]" % (inter, regime), {"coverage": c.tolist(), "program": k, "marginal": float(mk)})
                        break
                else:
                    R.ok("marginal=coverage")
            # monotone: all deltas one sign (incl. explicit ones) and c <= c'
            deltas = [v - base for v in table.values()] if table else [v - base for v in progs.values()]
            if all(d >= 0 for d in deltas) or all(d <= 0 for d in deltas):
                c2 = np.clip(c + np.where(rng.random(n) < 0.5, rng.uniform(0, 0.5, size=n), 0.0), 0, 1)
                y2 = co.get_outcome({k: np.array([v]) for k, v in zip(names, c2)})
                sign = 1 if all(d >= 0 for d in deltas) else -1
                R.count("monotone_pairs")
                if sign * (y2 - y) < -1e-9 * max(1.0, abs(y)):
                    # the property states monotonicity only when all programs move the parameter the same way; explicit
                    # interaction outcomes below a member's outcome break that premise -> only judged when combination
                    # outcomes are themselves monotone in set inclusion
                    mono_table = all(sign * (table[a] - table[b]) >= -1e-12 for a in table for b in table if b < a) if table else True
                    if mono_table:
                        R.bad("monotone-in-coverage", "C12:not-monotone[%s,n=%d]" % (inter, n), {"coverage": c.tolist(), "coverage_after": c2.tolist(), "outcome": float(y), "outcome_after": float(y2), "progs": progs, "baseline": base, "imp": imp})
                    else:
                        R.count("monotone_pairs_premise_not_met")
                else:
                    R.ok("monotone-in-coverage")
        # the outcome is a function of the object's visible data: after the baseline (or a program outcome) has been changed and
        # update_outcomes() called - the documented protocol, used by reconciliation - it answers like a freshly built object
        if rng.random() < 0.35:
            base2 = float(base) + float(rng.choice([-0.3, 0.2, 0.45]))
            progs2 = dict(progs)
            if rng.random() < 0.5:
                k_ = names[int(rng.integers(0, n))]
                progs2[k_] = float(progs2[k_]) + 0.15
            co.baseline = base2
            for k_, v_ in progs2.items():
                co.progs[k_] = v_
            co.update_outcomes()
            fresh = at.programs.Covout(par="par", pop="pop", progs=progs2, cov_interaction=inter, imp_interaction=imp, baseline=base2)
            R.count("covouts_edited_after_construction")
            for j in range(4):
                c = cov_vector(rng, n)
                cov = {k: np.array([v]) for k, v in zip(names, c)}
                y1, y2 = float(co.get_outcome(cov)), float(fresh.get_outcome(cov))
                if not (abs(y1 - y2) <= 1e-12 * max(1.0, abs(y2))):
                    R.bad("edited=freshly-built", "C12:edited-covout-differs-from-freshly-built[%s,%s]" % (inter, "explicit" if imp else "best"), {"coverage": c.tolist(), "edited": y1, "fresh": y2, "progs": progs2, "baseline": base2, "imp": imp, "baseline_at_construction": base})
                    break
            else:
                R.ok("edited=freshly-built")
        if len(samples) < 2:
            samples.append({"progs": progs, "baseline": base, "interaction": inter, "imp_interaction": imp})
    return {"records": R.records(), "stats": R.stats, "nontrivial": bool(multi and above), "sample": {"kind": "batch", "covouts": samples}}


def run_library(case, R):
    import atomica as at
    import atomica.programs as PR

    name = case["name"]
    P = at.Project(framework=at.LIBRARY_PATH / ("%s_framework.xlsx" % name), databook=at.LIBRARY_PATH / ("%s_databook.xlsx" % name), do_run=False)
    pset = P.load_progbook(at.LIBRARY_PATH / ("%s_progbook.xlsx" % name))
    instr = at.ProgramInstructions(start_year=P.settings.sim_start + 2)

    def post(tok, out, covout, prop_covered):
        check_bounds(R, covout, prop_covered, out, "integrator:" + name)

    with attach.Attach() as A:
        A.wrap(PR.Covout, "get_outcome", post=post)
        P.run_sim(P.parsets[0], progset=pset, progset_instructions=instr)
    return {"records": R.records(), "stats": R.stats, "nontrivial": R.stats.get("outcome_calls_checked", 0) > 0, "sample": {"kind": "library", "name": name}}


def run_case(case):
    R = ref.Recs()
    if case["kind"] == "batch":
        return run_batch(case, R)
    return run_library(case, R)

"""C16 - round trips preserve content and behaviour; objects behave as their visible data."""

import io
import os
import tempfile

import numpy as np

from av import digest, gen, ref, simcase
from av.props import simprop

MANIFEST_ENTRY = {
    "category": "exploration",
    "technique": "round-trip monitor: structural content comparison (order-insensitive, 15 significant digits through spreadsheets, exact through binary files) and paired simulations, for frameworks, databooks, program books, calibrations, projects and results; plus seed-chosen sequences of editing operations after which the object is compared with the one rebuilt from its own exported spreadsheet; all 67 shipped models through every round trip; a failing write or read is itself a violation",
    "text": "For generated and library inputs: framework.to_spreadsheet -> ProjectFramework, data.to_spreadsheet -> from_spreadsheet, progset.to_spreadsheet -> from_spreadsheet, parset.calibration_spreadsheet -> load_calibration (with unknown rows first / middle / last and with missing rows), Project.save/load and saveobj/loadobj of a Result. Content (every value, year, assumption, uncertainty, unit, population, transfer, interaction, target, effect) is extracted into an order-insensitive canonical form and compared; the simulations of the original and of the round-tripped object must agree to 1e-9, and a second round trip must reproduce the first bit for bit. Sequences of up to 4 operations from {copy, add_pop, remove_pop, add/remove_program, add/remove_par, zero-uncertainty sample(), reconcile, load_calibration} are applied in seed-chosen order, after which the object must simulate (1e-9) like the object rebuilt from its own exported spreadsheet. All 70 corpus models (49 shipped framework/databook(/program book) combinations, 18 fixture frameworks with a generated databook, 3 junction fixtures written out for two population types; 5 anchors in every quick run) go through the framework, databook, program-book, calibration and binary round trips; the exported content of edited program sets is compared with the rebuilt one; a write or read that raises is a violation. 15% of the generated series, transfers and interactions hold a constant next to year values; editing operations run on shipped data and program books as well (population types respected, removal by code or full name). Shipped databooks receive uncertainties and further years through the API before export. Programs listing sinks or junctions among their target compartments are part of the generated program books; five anchors run in every quick tier. Baseline-only reconciliations of the small library models run in every tier. A fifth of the generated databooks have year columns 0.01 years apart.",
    "note": "Time points outside a table's year columns are not written by design, so generated series keep their years inside the table's years. Numbers are compared to 15 significant digits through spreadsheets.",
}

META = {
    "level": "exploration",
    "rule": "cases = (generated or library model, round-trip kind or operation sequence); non-trivial = the operation sequence / edited content changes the simulation relative to the untouched object, or (pure round trips) the round-tripped object carries time-varying values, uncertainties and at least one transfer or interaction; distinct = case fingerprints",
    "deciding_counters": ["round_trips", "paired_simulations", "operation_sequences"],
    "assumptions": ["ill-posed junction runs are outside the domain of the paired simulations (counted)"],
    "case_timeout": 600,
}

LIB = ["sir", "tb", "hypertension", "udt", "usdt", "hiv", "diabetes", "cervicalcancer", "tb_simple", "combined", "hypertension_dyn", "udt_dyn"]
KINDS = ["framework", "databook", "progbook", "calibration", "binary", "progset_ops", "data_ops", "parset_ops"]
N = {"quick": 200, "thorough": 5000}


ANCHORS = ["atomica/library/malaria_framework.xlsx", "atomica/library/combined_framework.xlsx", "atomica/library/tb_framework.xlsx", "tests/timed_tb_framework.xlsx", "tests/framework_par_min_max_test.xlsx"]  # 3 population types + week/day timescales + derivatives; 3 types with data; large; timed
N_CORPUS = {"quick": 16, "thorough": 201}  # (thorough: about 3 perturbed variants of each of the 70 corpus models)


def count(tier, seed):
    return N[tier] + len(LIB) + N_CORPUS[tier]


def make_case(tier, seed, index):
    if index < len(LIB):
        return {"kind": "library", "name": LIB[index]}
    index -= len(LIB)
    if index < N_CORPUS[tier]:
        # every framework / databook / program book shipped with the repository (several population types, cross-type
        # interactions, comments, sparse years, fixtures with hand-made layouts), with mild calibration factors
        from av import corpus

        rng = gen.rng_for(seed, 16, 900000 + index)
        ntot = len(corpus.PAIRS) + len(corpus.AUTO)
        i = (index + seed * N_CORPUS[tier]) % ntot
        if tier == "quick" and index < len(ANCHORS):  # models with unique features are in every quick run
            names = [x[0] for x in corpus.PAIRS] + list(corpus.AUTO)
            i = names.index(ANCHORS[index])
        case = corpus.make_case(rng, max_steps=8)
        fw, db, pbs = corpus.PAIRS[i] if i < len(corpus.PAIRS) else (corpus.AUTO[i - len(corpus.PAIRS)], None, [])
        menu = ["add_pop", "remove_pop", "add_transfer", "remove_transfer", "copy", "add_pop", "remove_pop"]
        ops = [str(menu[int(rng.integers(0, len(menu)))]) for _ in range(int(rng.integers(1, 5)))]
        pmenu = ["copy", "add_program", "remove_program", "remove_par", "add_par", "sample0", "remove_pop"]
        pops_ = [str(pmenu[int(rng.integers(0, len(pmenu)))]) for _ in range(int(rng.integers(1, 4)))]
        while pops_.count("sample0") > 1:
            pops_.remove("sample0")
        if tier == "quick" and index < len(ANCHORS):
            # (in the anchors of a quick run the rarer forms of the operations are not left to chance)
            pops_ = ["remove_pop"] + [x for x in pops_ if x != "remove_pop"][:2]
            case["remove_pop_by"] = "full name"
            if index in (1, 2):
                pops_ = ["reconcile"] + pops_[:1]  # ... and a reconciliation that moves baselines only
                case["reconcile_mode"] = 1
        case["progset_ops"] = pops_
        case.update({"kind": "corpus-roundtrip", "framework": fw, "databook": db, "progbook": pbs[int(rng.integers(0, len(pbs)))] if pbs else None, "mode": "mild", "budget_factor": 1.0, "prog_start_step": 1.0, "ops": ops, "seed": [seed, 16, index, 9]})
        return case
    index += len(LIB)
    rng = gen.rng_for(seed, 16, index)
    kind = KINDS[index % len(KINDS)]
    pf = {"p_targetable": 0.6, "p_function": 0.4, "n_pops": (1, 3), "p_transfer": 0.6, "p_aggregation": 0.5, "steps": (3, 12), "p_timevarying": 0.7}
    spec = gen.gen_spec(rng, pf)
    # uncertainties on some data
    timed = {p["name"] for p in spec["pars"] if p.get("timed")}
    for name, popvals in spec["values"].items():
        if name in timed:
            continue  # the databook has no uncertainty column for timed parameters (by design)
        for pop, v in popvals.items():
            if rng.random() < 0.3:
                v["sigma"] = float(rng.choice([0.0, 0.1, 2.5]))
    if rng.random() < 0.2:
        # year columns that are only 0.01 years apart (weekly or daily data): every value stays in its own column
        y0_ = float(spec["years"][min(1, len(spec["years"]) - 1)])
        extra_ = [y0_ + 0.01, y0_ + 0.02]
        spec["years"] = sorted(set(float(y) for y in spec["years"]) | set(extra_))
        n_ = 0
        for name_, popvals_ in spec["values"].items():
            if name_ in timed:
                continue
            for pop_, v_ in popvals_.items():
                if "t" in v_ and n_ < 6 and not any(abs(float(t_) - e_) < 1e-9 for t_ in v_["t"] for e_ in extra_):
                    v_["t"] = list(v_["t"]) + extra_
                    v_["v"] = list(v_["v"]) + [float(v_["v"][0]) * 1.25, float(v_["v"][0]) * 0.75]
                    n_ += 1
    ps = gen.gen_progspec(rng, spec)
    ops = []
    if kind.endswith("_ops"):
        menu = {"progset_ops": ["copy", "add_program", "remove_program", "remove_par", "add_par", "sample0", "reconcile", "remove_pop", "add_pop"], "data_ops": ["add_pop", "remove_pop", "add_transfer", "remove_transfer", "copy"], "parset_ops": ["copy", "sample0", "load_calibration", "load_calibration_unknown_rows", "load_calibration_missing_rows", "load_calibration_blank_cells"]}[kind]
        ops = [str(menu[int(rng.integers(0, len(menu)))]) for _ in range(int(rng.integers(1, 5)))]
        while ops.count("sample0") > 1:  # a sampled object cannot be sampled again (by design)
            ops.remove("sample0")
    return {"kind": kind, "spec": spec, "progspec": ps, "ops": ops, "seed": [seed, 16, index, 7]}


# ---------------------------------------------------------------------------------------------
# canonical content
# ---------------------------------------------------------------------------------------------
def num(x, sig=15):
    if x is None:
        return None
    try:
        if np.isnan(x):
            return "nan"
    except TypeError:
        return x
    return float("%.*g" % (sig, float(x)))


def ts_content(ts, sig=15):
    return (ts.units.strip().lower() if isinstance(ts.units, str) else ts.units, num(ts.assumption, sig), num(ts.sigma, sig), tuple(num(t, sig) for t in ts.t), tuple(num(v, sig) for v in ts.vals))


def data_content(data, sig=15):
    c = {"pops": {k: (v["label"], v["type"]) for k, v in data.pops.items()}, "tdve": {}, "transfers": {}, "interpops": {}}
    for code, tdve in data.tdve.items():
        c["tdve"][code] = {pop: ts_content(ts, sig) for pop, ts in tdve.ts.items()}
    for grp, lst in (("transfers", data.transfers), ("interpops", data.interpops)):
        for tdc in lst:
            c[grp][tdc.code_name] = (tdc.full_name, {k: ts_content(ts, sig) for k, ts in tdc.ts.items()})
    return c


def progset_content(ps, sig=15):
    c = {"programs": {}, "covouts": {}, "pops": {k: (v["label"], v["type"]) for k, v in ps.pops.items()}}
    for name, p in ps.programs.items():
        c["programs"][name] = {"label": p.label, "target_pops": tuple(sorted(p.target_pops)), "target_comps": tuple(sorted(p.target_comps)), "spend": ts_content(p.spend_data, sig), "unit_cost": ts_content(p.unit_cost, sig), "capacity_constraint": ts_content(p.capacity_constraint, sig) if p.capacity_constraint.has_data else None, "saturation": ts_content(p.saturation, sig)[1:] if p.saturation.has_data else None, "coverage": ts_content(p.coverage, sig)[1:] if p.coverage.has_data else None}
    for key, co in ps.covouts.items():
        imp = None
        if co.imp_interaction:
            parts = []
            for tok in co.imp_interaction.split(","):
                a, b = tok.split("=")
                parts.append(("+".join(sorted(x.strip() for x in a.split("+"))), num(float(b), 10)))
            imp = tuple(sorted(parts))
        c["covouts"][key] = (num(co.baseline, sig), tuple(sorted((k, num(v, sig)) for k, v in co.progs.items())), co.cov_interaction, imp, num(co.sigma, sig) if co.sigma is not None else None)
    return c


def framework_content(fw):
    def df_content(df, cols=None):
        out = {}
        for idx, row in df.iterrows():
            def cell(v):
                if v is None:
                    return None
                if isinstance(v, (int, float, np.floating, np.integer)) and not isinstance(v, bool):
                    return None if np.isnan(v) else num(v)
                try:
                    import pandas as pd

                    if pd.isna(v):
                        return None
                except (TypeError, ValueError):
                    pass
                return str(v)

            out[str(idx)] = tuple((str(c), cell(v)) for c, v in sorted(row.items(), key=lambda kv: str(kv[0])))
        return out

    c = {"comps": df_content(fw.comps), "characs": df_content(fw.characs), "pars": df_content(fw.pars), "interactions": df_content(fw.interactions), "transitions": {k: tuple(sorted(v)) for k, v in fw.transitions.items() if v}, "cascades": {k: tuple(tuple(str(x) for x in r) for r in df.values.tolist()) for k, df in fw.cascades.items()}, "pop_types": list(fw.pop_types.keys())}
    return c


def diff_content(a, b, path="", rtol=1e-13):
    """First difference between two canonical contents.  Floats are compared to `rtol` (1e-13: the 15 significant digits a
    spreadsheet is guaranteed to keep, without the brittleness of comparing rounded decimal strings); rtol=0 is exact."""
    if isinstance(a, float) and isinstance(b, float) and not isinstance(a, bool):
        if a == b or abs(a - b) <= rtol * max(abs(a), abs(b)):
            return None
        return "%s: %r != %r" % (path, a, b)
    if type(a) != type(b) and not (isinstance(a, (int, float)) and isinstance(b, (int, float))):
        return "%s: %r != %r" % (path, a, b)
    if isinstance(a, dict):
        for k in sorted(set(a) | set(b), key=str):
            if k not in a:
                return "%s/%s: missing in original" % (path, k)
            if k not in b:
                return "%s/%s: missing after round trip" % (path, k)
            d = diff_content(a[k], b[k], "%s/%s" % (path, k), rtol)
            if d:
                return d
        return None
    if isinstance(a, (list, tuple)):
        if len(a) != len(b):
            return "%s: length %d != %d (%r vs %r)" % (path, len(a), len(b), a, b)
        for i, (x, y) in enumerate(zip(a, b)):
            d = diff_content(x, y, "%s[%d]" % (path, i), rtol)
            if d:
                return d
        return None
    if a != b:
        return "%s: %r != %r" % (path, a, b)
    return None


def sim(P, parset, pset=None, instr=None, fw=None):
    import atomica as at
    import atomica.model as M

    if fw is None:
        return P.run_sim(parset, progset=pset, progset_instructions=instr)
    m = M.run_model(settings=P.settings, framework=fw, parset=parset, progset=pset, program_instructions=instr)
    return m


def ulp_run(P, parset, pset=None, instr=None, fw=None):
    """The same run with every calibration factor and every unit cost moved by one unit in the last place: what this model does
    to a difference in the 16th digit of its inputs."""
    import sciris as sc

    ps_ = sc.dcp(parset)
    up = float(np.nextafter(1.0, 2.0))
    for par in ps_.all_pars():
        for pop in par.y_factor:
            par.y_factor[pop] = par.y_factor[pop] * up
    pset_ = None
    if pset is not None:
        pset_ = sc.dcp(pset)
        for prog in pset_.programs.values():
            prog.unit_cost.vals = [float(np.nextafter(v, np.inf)) for v in prog.unit_cost.vals]
            if prog.unit_cost.assumption is not None:
                prog.unit_cost.assumption = float(np.nextafter(prog.unit_cost.assumption, np.inf))
    return sim(P, ps_, pset_, instr, fw=fw)


def _drift(A, B, floor_):
    worst = 0.0
    for k, v in A.items():
        if k[0] in ("comp", "link", "bins", "charac") and k in B and B[k].shape == v.shape:
            with np.errstate(all="ignore"):
                e_ = np.abs(B[k] - v) / np.maximum(floor_, np.maximum(np.abs(B[k]), np.abs(v)))
            if e_.size and np.isfinite(e_).any():
                worst = max(worst, float(np.nanmax(e_)))
    return worst


def compare_runs(R, label, rA, rB, rtol=1e-9, sens=None):
    """sens: (P, parset, pset, instr[, fw]) of run A.  When the runs differ by more than rtol the model's own sensitivity is
    measured with a one-ulp perturbation of A's inputs; a difference within 100 x that drift is what any 16th-digit difference
    does to this model, not a difference in content."""
    diffs = _compare_runs(R, label, rA, rB, rtol)
    if diffs and rtol > 0 and sens is not None and not any(d[1] == "None" for d in diffs):
        try:
            rC = ulp_run(*sens)
            A, B, C = digest.result_arrays(rA), digest.result_arrays(rB), digest.result_arrays(rC)
            floor_ = max([1.0] + [float(np.nanmax(np.abs(np.where(np.isfinite(v), v, 0.0)))) for k, v in A.items() if k[0] in ("comp", "link") and v.size])
            d_ab, d_ulp = _drift(A, B, floor_), _drift(A, C, floor_)
            R.count("run_differences_judged_against_the_models_own_sensitivity")
            if d_ab <= 100.0 * d_ulp:
                R.count("run_difference_within_the_drift_of_a_one_ulp_change")
                return []
        except Exception as e:
            R.count("sensitivity_run_failed[%s]" % type(e).__name__)
    return diffs


def _compare_runs(R, label, rA, rB, rtol=1e-9):
    R.count("paired_simulations")
    vA = ref.View(rA)
    if vA.ill_posed_junctions():
        R.count("illposed_runs")
        return None
    A, B = digest.result_arrays(rA), digest.result_arrays(rB)
    if rtol == 0:
        diffs = digest.compare_arrays(A, B, rtol=0.0)
    else:
        # agreement to rtol relative to the magnitudes in the model: a 1e-16 perturbation of an input (the 16th digit a
        # spreadsheet drops) may be amplified in a stiff model, so the floor is rtol x the largest stock / flow
        scale = max([1.0] + [float(np.nanmax(np.abs(np.where(np.isfinite(v), v, 0.0)))) for k, v in A.items() if k[0] in ("comp", "link") and v.size])
        diffs = []
        try:
            fpars = {n for n, f in rA.framework.pars["function"].items() if isinstance(f, str)}
        except Exception:
            fpars = set()
        for k in sorted(set(A) | set(B), key=str):
            if k[0] == "par" and k[-1] in fpars:
                # function parameters are judged through the stocks and flows they drive: a ratio of two quantities that are
                # both rounding noise (1e-14 people) legitimately turns a 16th-digit difference of an input into O(1)
                continue
            if k not in A or k not in B:
                diffs.append((k, None, "present" if k in A else "missing", "present" if k in B else "missing"))
                continue
            x, y = A[k], B[k]
            if x.shape != y.shape:
                diffs.append((k, None, x.shape, y.shape))
                continue
            with np.errstate(all="ignore"):
                ok = (np.abs(x - y) <= rtol * np.maximum(scale if k[0] in ("comp", "link", "bins", "charac") else 1.0, np.maximum(np.abs(x), np.abs(y)))) | (x == y) | (np.isnan(x) & np.isnan(y))
            if not np.all(ok):
                idx = np.argwhere(~ok)[0]
                diffs.append((k, [int(i) for i in idx], float(x[tuple(idx)]), float(y[tuple(idx)])))
    if diffs:
        return [list(map(str, d)) for d in diffs[:4]]
    return []


# ---------------------------------------------------------------------------------------------
def run_case(case):
    import atomica as at
    import sciris as sc

    R = ref.Recs()
    kind = case["kind"]
    if kind == "library":
        name = case["name"]
        P = at.Project(framework=at.LIBRARY_PATH / ("%s_framework.xlsx" % name), databook=at.LIBRARY_PATH / ("%s_databook.xlsx" % name), do_run=False)
        P.settings.update_time_vector(end=P.settings.sim_start + 6)
        pset = P.load_progbook(at.LIBRARY_PATH / ("%s_progbook.xlsx" % name))
        instr = at.ProgramInstructions(start_year=P.settings.sim_start + 2)
        nt = 0
        for k in ("framework", "databook", "progbook", "calibration", "binary"):
            nt += round_trip(R, k, P, pset, instr, np.random.default_rng(1))
        if name in ("sir", "udt", "usdt"):
            # (small models: a reconciliation that moves baselines only gets somewhere within its second)
            progset_ops(R, {"progset_ops": ["reconcile"], "ops": ["reconcile"], "reconcile_mode": 1}, P, pset, instr, np.random.default_rng(2))
            progset_ops(R, {"progset_ops": ["reconcile", "copy"], "ops": ["reconcile", "copy"], "reconcile_mode": 0}, P, pset, instr, np.random.default_rng(3))
        return {"records": R.records(), "stats": R.stats, "nontrivial": True, "sample": {"kind": "library", "name": name}}

    if kind == "corpus-roundtrip":
        from av import corpus

        P, pset, instr = corpus.build(dict(case, kind="corpus"))
        if any("rand" in str(f) for f in P.framework.pars["function"] if f is not None):
            return {"records": [], "stats": {"corpus_model_with_random_function": 1}, "nontrivial": False, "excluded": "stochastic parameter function (runs are not comparable)"}
        R.count("corpus_cases")
        R.count("corpus_population_types[%d]" % len(P.framework.pop_types))
        for k in ("framework", "databook", "calibration", "binary") + (("progbook",) if pset is not None else ()):
            round_trip(R, k, P, pset, instr, np.random.default_rng(1))
        # content entered through the API after loading (uncertainties on tables that were read without an uncertainty column,
        # a further year, another assumption) must reach the exported workbook like content that was read from a file
        rng_e = np.random.default_rng(case["seed"] + [2])
        tables = list(P.data.tdve.values())
        n_edit = 0
        for tdve in [tables[int(i)] for i in rng_e.permutation(len(tables))[:6]]:
            for pop, ts in tdve.ts.items():
                u_ = rng_e.random()
                if u_ < 0.6:
                    ts.sigma = float(rng_e.choice([0.05, 0.1, 0.25]))
                    n_edit += 1
                elif u_ < 0.75 and ts.has_time_data:
                    # a value for a year of the table that this row had left blank (the table's own years decide which columns
                    # are written - documented - so a year outside them is not content of the workbook)
                    free_years = [float(y) for y in np.asarray(tdve.tvec, dtype=float) if float(y) not in [float(x) for x in ts.t]]
                    if free_years:
                        y_new = free_years[int(rng_e.integers(0, len(free_years)))]
                        ts.insert(y_new, float(ts.interpolate(y_new)[0]))  # (on the interpolant: the parameter set built before the edit still describes these data)
                        n_edit += 1
        for tdc in list(P.data.transfers) + list(P.data.interpops):
            for key, ts in tdc.ts.items():
                if rng_e.random() < 0.5:
                    ts.sigma = float(rng_e.choice([0.05, 0.1]))
                    n_edit += 1
        R.count("databook_entries_edited_through_the_API_before_export", n_edit)
        round_trip(R, "databook", P, pset, instr, np.random.default_rng(1))
        # editing operations on the shipped databook (populations of every type, transfers), then the round trip
        if case.get("ops"):
            data_ops(R, case, P, None, np.random.default_rng(case["seed"]))
        if pset is not None and case.get("progset_ops"):
            progset_ops(R, case, P, pset, instr, np.random.default_rng(case["seed"] + [1]))
        return {"records": R.records(), "stats": R.stats, "nontrivial": True, "sample": dict(corpus.describe(case), kind=kind, ops=case.get("ops"))}
    spec, ps = case["spec"], case["progspec"]
    rng = np.random.default_rng(case["seed"])
    P = gen.build_project(spec)
    pset = instr = None
    if ps is not None:
        pset = gen.build_progset(ps, P.framework, P.data)
        instr = gen.build_instructions(ps)
    nontrivial = False
    if kind in ("framework", "databook", "progbook", "calibration", "binary"):
        if kind == "progbook" and pset is None:
            kind = "databook"
        nontrivial = bool(round_trip(R, kind, P, pset, instr, rng))
    elif kind == "progset_ops":
        if pset is None:
            return {"records": [], "stats": {"no_progset": 1}, "nontrivial": False}
        nontrivial = progset_ops(R, case, P, pset, instr, rng)
    elif kind == "data_ops":
        nontrivial = data_ops(R, case, P, spec, rng)
    elif kind == "parset_ops":
        nontrivial = parset_ops(R, case, P, spec, pset, instr, rng)
    sample = dict(simprop.sample_of(spec))
    sample.update({"kind": kind, "ops": case["ops"]})
    return {"records": R.records(), "stats": R.stats, "nontrivial": bool(nontrivial), "sample": sample}


def round_trip(R, kind, P, pset, instr, rng):
    """One write -> read -> compare cycle; a failure to write or to read back what was written is itself a violation."""
    try:
        return _round_trip(R, kind, P, pset, instr, rng)
    except Exception as e:
        import traceback

        tb = traceback.extract_tb(e.__traceback__)
        where = [f for f in tb if "/atomica/" in f.filename]
        R.bad("round-trip-completes", "C16:%s-round-trip-fails[%s]" % (kind, type(e).__name__), {"error": str(e)[:300], "where": "%s:%s %s" % (where[-1].filename.split("/")[-1], where[-1].lineno, where[-1].name) if where else "harness"})
        return 0


def _round_trip(R, kind, P, pset, instr, rng):
    import atomica as at
    import sciris as sc

    R.count("round_trips")
    R.count("round_trip[%s]" % kind)
    parset = P.parsets[0]
    try:
        base = sim(P, parset, pset, instr)
    except Exception as e:
        R.count("baseline_run_failed[%s]" % type(e).__name__)
        return 0
    rich = 1
    if kind == "framework":
        ss = P.framework.to_spreadsheet()
        fw2 = at.ProjectFramework(sc.Spreadsheet(io.BytesIO(ss.tofile().read() if hasattr(ss.tofile(), "read") else ss.blob)))
        d = diff_content(framework_content(P.framework), framework_content(fw2))
        if d:
            R.bad("framework-content", "C16:framework-round-trip-content[%s]" % d.split(":")[0].split("/")[1], {"difference": d})
        else:
            R.ok("framework-content")
        data2 = at.ProjectData.from_spreadsheet(P.data.to_spreadsheet(), fw2)
        data2.validate(fw2)
        ps2 = at.ParameterSet(fw2, data2, "rt")
        copy_yfactors(parset, ps2)
        pset2 = None
        if pset is not None:
            pset2 = at.ProgramSet.from_spreadsheet(pset.to_spreadsheet(), framework=fw2, data=data2)
        r2 = sim(P, ps2, pset2, instr, fw=fw2)
        diffs = compare_runs(R, kind, base, r2, sens=(P, parset, pset, instr))
        if diffs:
            R.bad("framework-behaviour", "C16:framework-round-trip-simulation-differs", {"first_differences": diffs})
        elif diffs is not None:
            R.ok("framework-behaviour")
        ss2 = fw2.to_spreadsheet()
        fw3 = at.ProjectFramework(ss2)
        d = diff_content(framework_content(fw2), framework_content(fw3))
        if d:
            R.bad("framework-second-round-trip", "C16:framework-second-round-trip-differs", {"difference": d})
        else:
            R.ok("framework-second-round-trip")
    elif kind == "databook":
        ss = P.data.to_spreadsheet()
        data2 = at.ProjectData.from_spreadsheet(ss, P.framework)
        data2.validate(P.framework)
        d = diff_content(data_content(P.data), data_content(data2))
        if d:
            R.bad("databook-content", "C16:databook-round-trip-content[%s]" % d.split("/")[1].split(":")[0], {"difference": d})
        else:
            R.ok("databook-content")
        ps2 = at.ParameterSet(P.framework, data2, "rt")
        copy_yfactors(parset, ps2)
        r2 = sim(P, ps2, pset, instr)
        diffs = compare_runs(R, kind, base, r2, sens=(P, parset, pset, instr))
        if diffs:
            R.bad("databook-behaviour", "C16:databook-round-trip-simulation-differs", {"first_differences": diffs})
        elif diffs is not None:
            R.ok("databook-behaviour")
        data3 = at.ProjectData.from_spreadsheet(data2.to_spreadsheet(), P.framework)
        d = diff_content(data_content(data2, 17), data_content(data3, 17), rtol=0)
        if d:
            R.bad("databook-second-round-trip", "C16:databook-second-round-trip-differs", {"difference": d})
        else:
            R.ok("databook-second-round-trip")
        c = data_content(P.data)
        rich = int(bool(c["transfers"] or c["interpops"]) and any(len(v[3]) > 1 for t in c["tdve"].values() for v in t.values()))
    elif kind == "progbook":
        if pset is None:
            return 0
        ss = pset.to_spreadsheet()
        pset2 = at.ProgramSet.from_spreadsheet(ss, framework=P.framework, data=P.data)
        d = diff_content(progset_content(pset), progset_content(pset2))
        if d:
            R.bad("progbook-content", "C16:progbook-round-trip-content[%s]" % d.split("/")[1].split(":")[0], {"difference": d})
        else:
            R.ok("progbook-content")
        r2 = sim(P, parset, pset2, instr)
        diffs = compare_runs(R, kind, base, r2, sens=(P, parset, pset, instr))
        if diffs:
            R.bad("progbook-behaviour", "C16:progbook-round-trip-simulation-differs", {"first_differences": diffs})
        elif diffs is not None:
            R.ok("progbook-behaviour")
        pset3 = at.ProgramSet.from_spreadsheet(pset2.to_spreadsheet(), framework=P.framework, data=P.data)
        d = diff_content(progset_content(pset2, 17), progset_content(pset3, 17), rtol=0)
        if d:
            R.bad("progbook-second-round-trip", "C16:progbook-second-round-trip-differs", {"difference": d})
        else:
            r3 = sim(P, parset, pset3, instr)
            diffs = compare_runs(R, kind, r2, r3, rtol=0.0)
            if diffs:
                R.bad("progbook-second-round-trip", "C16:progbook-second-round-trip-simulation-differs", {"first_differences": diffs})
            else:
                R.ok("progbook-second-round-trip")
    elif kind == "calibration":
        ps1 = sc.dcp(parset)
        for par in list(ps1.pars.values())[:: max(1, len(ps1.pars) // 6)]:
            for pop in par.y_factor:
                par.y_factor[pop] = float(rng.choice([0.5, 1.0, 1.5, 0.123456789012345]))
            if rng.random() < 0.3:
                par.meta_y_factor = float(rng.choice([0.9, 1.1]))
        for tname, d_ in ps1.transfers.items():
            for frm, par in d_.items():
                for pop in par.y_factor:
                    par.y_factor[pop] = float(rng.choice([0.5, 1.0, 2.0]))
        try:
            r1 = sim(P, ps1, pset, instr)
        except Exception as e:
            R.count("calibrated_run_failed[%s]" % type(e).__name__)
            return 0
        ss = ps1.calibration_spreadsheet()
        ps2 = at.ParameterSet(P.framework, P.data, "fresh")
        ps2.load_calibration(ss)
        a = {k: {kk: num(vv) for kk, vv in v.items()} for k, v in ps1.y_factors.items()}
        b = {k: {kk: num(vv) for kk, vv in v.items()} for k, v in ps2.y_factors.items()}
        d = diff_content(a, b)
        if d:
            R.bad("calibration-content", "C16:calibration-round-trip-content", {"difference": d})
        else:
            R.ok("calibration-content")
        r2 = sim(P, ps2, pset, instr)
        diffs = compare_runs(R, kind, r1, r2, sens=(P, ps1, pset, instr))
        if diffs:
            R.bad("calibration-behaviour", "C16:calibration-round-trip-simulation-differs", {"first_differences": diffs})
        elif diffs is not None:
            R.ok("calibration-behaviour")
    elif kind == "binary":
        with tempfile.TemporaryDirectory() as td:
            P2src = sc.dcp(P)
            if pset is not None:
                P2src.progsets.append(pset)
            res = sim(P2src, P2src.parsets[0], pset, instr)
            res.name = "stored"
            P2src.results.append(res)
            fn = P2src.save(os.path.join(td, "proj"))
            P2 = at.Project.load(fn)
            sc.saveobj(os.path.join(td, "res.obj"), res)
            res2 = sc.loadobj(os.path.join(td, "res.obj"))
        d = diff_content(data_content(P2src.data, 17), data_content(P2.data, 17), rtol=0)
        if d:
            R.bad("binary-content", "C16:project-save-load-content[data]", {"difference": d})
        elif pset is not None and diff_content(progset_content(pset, 17), progset_content(P2.progsets[0], 17), rtol=0):
            R.bad("binary-content", "C16:project-save-load-content[progset]", {"difference": diff_content(progset_content(pset, 17), progset_content(P2.progsets[0], 17))})
        else:
            R.ok("binary-content")
        r2 = sim(P2, P2.parsets[0], P2.progsets[0] if pset is not None else None, instr)
        diffs = compare_runs(R, kind, base, r2, rtol=0.0)
        if diffs:
            R.bad("binary-behaviour", "C16:project-save-load-simulation-differs", {"first_differences": diffs})
        elif diffs is not None:
            R.ok("binary-behaviour")
        diffs = digest.compare_arrays(digest.result_arrays(res), digest.result_arrays(res2))
        diffs2 = digest.compare_arrays(digest.result_arrays(res), digest.result_arrays(P2.results[0]))
        if diffs or diffs2:
            R.bad("binary-behaviour", "C16:result-save-load-arrays-differ", {"first_differences": [list(map(str, x)) for x in (diffs or diffs2)[:3]]})
        else:
            R.ok("binary-behaviour")
    return rich


def copy_yfactors(src, dst):
    for name, par in src.pars.items():
        if name in dst.pars:
            for pop, f in par.y_factor.items():
                if pop in dst.pars[name].y_factor:
                    dst.pars[name].y_factor[pop] = f
            dst.pars[name].meta_y_factor = par.meta_y_factor
    for group in ("transfers", "interactions"):
        for name, bysrc in getattr(src, group).items():
            for frm, par in bysrc.items():
                try:
                    d = getattr(dst, group)[name][frm]
                except Exception:
                    continue
                for pop, f in par.y_factor.items():
                    if pop in d.y_factor:
                        d.y_factor[pop] = f
                d.meta_y_factor = par.meta_y_factor


def progset_ops(R, case, P, pset, instr, rng):
    """After any sequence of edits the program set must simulate like the one rebuilt from its own spreadsheet."""
    import atomica as at
    import sciris as sc

    R.count("operation_sequences")
    parset = P.parsets[0]
    spec = case.get("spec")
    try:
        untouched = sim(P, parset, pset, instr)
    except Exception:
        return False
    ps = sc.dcp(pset)
    applied = []
    fw_ = P.framework
    if spec is not None:
        ords = [c["name"] for c in spec["comps"] if c["kind"] == "ord"]
        first_pop = spec["pops"][0]
        targetable = [p["name"] for p in spec["pars"] if p.get("targetable")]
    else:
        first_pop = list(pset.pops.keys())[0]
        ptype0 = pset.pops[first_pop]["type"]
        ords = [n for n, row in fw_.comps.iterrows() if row["is junction"] != "y" and row["is source"] != "y" and row["is sink"] != "y" and row["population type"] == ptype0]
        targetable = [n for n, row in fw_.pars.iterrows() if row["targetable"] == "y"]
    for op in case.get("progset_ops", case["ops"]):
        try:
            if op == "copy":
                ps = ps.copy("copied")
            elif op == "add_program":
                if not ords:
                    continue  # (a model without compartments: a new program would have nothing to target)
                nm = "newprog%d" % (len(ps.programs) + len(applied))
                while nm in ps.programs:
                    nm += "x"
                ps.add_program(nm, "New " + nm)
                prog = ps.programs[nm]
                prog.target_pops = [first_pop]
                prog.target_comps = [ords[0]]
                prog.spend_data.insert(None, 1000.0)
                prog.unit_cost.insert(None, 3.0)
                if ps.covouts:  # (no effect left to attach the new program to after the parameters were removed: it is added without one)
                    key = list(ps.covouts.keys())[int(rng.integers(0, len(ps.covouts)))]
                    ps.covouts[key].progs[nm] = float(rng.uniform(0, 1))
                    ps.covouts[key].update_outcomes()
            elif op == "remove_program":
                if len(ps.programs) < 2:
                    continue
                nm = list(ps.programs.keys())[int(rng.integers(0, len(ps.programs)))]
                ps.remove_program(nm)
            elif op == "remove_par":
                if len(ps.pars) < 2:
                    continue
                nm = list(ps.pars.keys())[int(rng.integers(0, len(ps.pars)))]
                ps.remove_par(nm)
            elif op == "add_par":
                missing = [n_ for n_ in targetable if n_ not in ps.pars]
                if not missing:
                    continue
                ps.add_par(missing[0], str(fw_.pars.at[missing[0], "display name"]))  # (the program book identifies parameters by their display name)
            elif op == "sample0":
                for prog in ps.programs.values():
                    for ts in (prog.spend_data, prog.unit_cost, prog.capacity_constraint, prog.saturation, prog.coverage):
                        ts.sigma = 0.0 if rng.random() < 0.5 else None
                for co in ps.covouts.values():
                    co.sigma = 0.0 if rng.random() < 0.5 else None
                ps = ps.sample()
            elif op == "reconcile":
                try:
                    ps.validate()
                except Exception:
                    continue  # e.g. a programme lost its only target population: not a valid program set to reconcile
                if any(not [p_ for p_ in prog.target_pops if p_ in ps.pops] for prog in ps.programs.values()):
                    continue
                P.progsets.append(ps) if ps.name not in P.progsets else None
                yr = float(P.settings.sim_start)
                which = int(case.get("reconcile_mode", rng.choice([0, 1, 3])))  # (outcome bounds without baseline bounds select nothing to reconcile: ASD refuses an empty vector)
                ps, _, _ = at.reconcile(P, parset, ps, yr, max_time=1, unit_cost_bounds=0.2 if which in (0, 3) else 0.0, baseline_bounds=0.3 if which in (0, 1) else 0.0, outcome_bounds=0.3 if which in (0, 2) else 0.0)
                R.count("reconcile_mode[%d]" % which)
            elif op == "remove_pop":
                if len(ps.pops) < 2:
                    continue
                with_effects = [c_ for c_ in ps.pops if any(k_[1] == c_ for k_ in ps.covouts)]  # (prefer a population in which programs have effects)
                code_ = with_effects[-1] if with_effects else list(ps.pops.keys())[-1]
                named = [c_ for c_ in with_effects if ps.pops[c_]["label"] != c_ and ps.pops[c_]["label"] not in ps.pops]
                if named and case.get("remove_pop_by") == "full name":
                    code_ = named[-1]  # (one whose full name differs from its code name)
                label_ = ps.pops[code_]["label"]
                if (rng.random() < 0.5 or case.get("remove_pop_by") == "full name") and label_ != code_ and label_ not in ps.pops:
                    ps.remove_pop(label_)  # (the method accepts the code name or the full name)
                    R.count("remove_pop_by_full_name")
                else:
                    ps.remove_pop(code_)
            elif op == "add_pop":
                continue
            applied.append(op)
        except Exception as e:
            R.bad("operation-succeeds", "C16:progset-operation-fails[%s,%s]" % (op, type(e).__name__), {"op": op, "applied_before": applied, "error": str(e)[:300]})
            return False
    try:
        ps.validate()
    except Exception as e:
        R.count("edited_progset_invalid[%s]" % str(e)[:40])
        return False
    if any(not [p_ for p_ in prog.target_pops if p_ in ps.pops] for prog in ps.programs.values()):
        R.count("edited_progset_invalid[program without target population]")
        return False
    R.count("ops_applied", len(applied))
    for op in applied:
        R.count("op[%s]" % op)
    # the edited object vs the object rebuilt from its own spreadsheet
    try:
        ss = ps.to_spreadsheet()
    except Exception as e:
        R.bad("edited-object-exports", "C16:edited-progset-cannot-be-exported[%s]" % type(e).__name__, {"ops": applied, "error": str(e)[:300]})
        return False
    data_for = P.data
    if "remove_pop" in applied:
        # rebuilding needs a databook with the same populations
        data_for = sc.dcp(P.data)
        for pop in list(data_for.pops.keys()):
            if pop not in ps.pops:
                data_for.remove_pop(pop)
    try:
        rebuilt = at.ProgramSet.from_spreadsheet(ss, framework=P.framework, data=data_for)
    except Exception as e:
        R.bad("edited-object-reloads", "C16:edited-progset-spreadsheet-cannot-be-read[%s,%s]" % ("+".join(sorted(set(applied))), type(e).__name__), {"ops": applied, "error": str(e)[:300]})
        return False
    # the data the edited object holds is the data its spreadsheet shows (15 significant digits)
    dc = diff_content(progset_content(ps, 15), progset_content(rebuilt, 15))
    if dc:
        R.bad("edited-object-content-exported", "C16:edited-progset-content-lost-on-export[%s]" % "+".join(sorted(set(applied))), {"ops": applied, "difference": dc[:300]})
    else:
        R.ok("edited-object-content-exported")
    start = max(float(P.settings.sim_start), instr.start_year) if instr is not None else float(P.settings.sim_start)
    instr2 = at.ProgramInstructions(start_year=float(P.settings.sim_start)) if "reconcile" in applied else sc.dcp(instr)
    for d_ in (instr2.alloc, instr2.capacity, instr2.coverage):  # overwrites that name a removed program are not part of the claim
        for k_ in list(d_.keys()):
            if k_ not in ps.programs:
                del d_[k_]
    try:
        rA = sim(P, parset, ps, instr2)
    except Exception as e:
        R.bad("edited-object-simulates", "C16:edited-progset-fails-to-simulate[%s,%s]" % ("+".join(sorted(set(applied))), type(e).__name__), {"ops": applied, "error": str(e)[:300]})
        return False
    try:
        rB = sim(P, parset, rebuilt, instr2)
    except Exception as e:
        R.count("rebuilt_progset_fails_to_simulate[%s]" % type(e).__name__)
        return False
    diffs = compare_runs(R, "progset_ops", rA, rB, sens=(P, parset, ps, instr2))
    if diffs:
        R.bad("behaves-as-visible-data", "C16:edited-progset-differs-from-rebuilt[%s]" % "+".join(sorted(set(applied))), {"ops": applied, "first_differences": diffs})
    elif diffs is not None:
        R.ok("behaves-as-visible-data")
    d0 = digest.compare_arrays(digest.result_arrays(untouched), digest.result_arrays(rA), rtol=1e-9)
    return bool(d0)


def data_ops(R, case, P, spec, rng):
    import atomica as at
    import sciris as sc

    R.count("operation_sequences")
    fw = P.framework
    data = sc.dcp(P.data)
    applied = []
    try:
        untouched = sim(P, P.parsets[0])
    except Exception:
        return False
    for op in case["ops"]:
        try:
            if op == "copy":
                data = sc.dcp(data)
            elif op == "add_pop":
                nm = "newpop%d" % (len(applied) + len(data.pops))
                while nm in data.pops:
                    nm += "x"
                ptypes = list(fw.pop_types.keys())
                ptype = ptypes[int(rng.integers(0, len(ptypes)))]
                data.add_pop(nm, "New " + nm, pop_type=ptype) if len(ptypes) > 1 else data.add_pop(nm, "New " + nm)
                R.count("add_pop[type %d of %d]" % (ptypes.index(ptype) + 1, len(ptypes)))
                for code, tdve in data.tdve.items():
                    src = [k_ for k_ in tdve.ts.keys() if k_ != nm]
                    if nm in tdve.ts and src:
                        tdve.ts[nm] = tdve.ts[src[0]].copy()
                for tdc in data.interpops:
                    for a in tdc.from_pops:
                        for b in tdc.to_pops:
                            if (a, b) not in tdc.ts:
                                ts = at.TimeSeries(units="N.A.")
                                ts.insert(None, float(rng.uniform(0, 2)))
                                tdc.ts[(a, b)] = ts
            elif op == "remove_pop":
                # (the last population of a population type is not removed: the library has no notion of a type without populations)
                removable = [k_ for k_, v_ in data.pops.items() if sum(1 for w_ in data.pops.values() if w_["type"] == v_["type"]) >= 2]
                if not removable:
                    continue
                data.remove_pop(removable[int(rng.integers(0, len(removable)))])
            elif op == "add_transfer":
                nm = "newtr%d" % len(data.transfers)
                ptypes = list(fw.pop_types.keys())
                ptype = ptypes[int(rng.integers(0, len(ptypes)))]
                tdc = data.add_transfer(nm, "New " + nm, pop_type=ptype) if len(ptypes) > 1 else data.add_transfer(nm, "New " + nm)
                pops = [k_ for k_, v_ in data.pops.items() if len(ptypes) == 1 or v_["type"] == ptype]
                if len(pops) >= 2:
                    ts = at.TimeSeries(units=gen.TRANSFER_UNITS["rate"])
                    ts.insert(None, float(rng.uniform(0, 0.5)))
                    tdc.ts[(pops[0], pops[1])] = ts
            elif op == "remove_transfer":
                if not data.transfers:
                    continue
                data.remove_transfer(data.transfers[-1].code_name)
            applied.append(op)
        except Exception as e:
            R.bad("operation-succeeds", "C16:databook-operation-fails[%s,%s]" % (op, type(e).__name__), {"op": op, "applied_before": applied, "error": str(e)[:300]})
            return False
    for op in applied:
        R.count("op[%s]" % op)
    try:
        data.validate(fw)
        psA = at.ParameterSet(fw, data, "edited")
        rebuilt = at.ProjectData.from_spreadsheet(data.to_spreadsheet(), fw)
        rebuilt.validate(fw)
        psB = at.ParameterSet(fw, rebuilt, "rebuilt")
    except Exception as e:
        R.bad("edited-object-reloads", "C16:edited-databook-cannot-round-trip[%s,%s]" % ("+".join(sorted(set(applied))), type(e).__name__), {"ops": applied, "error": str(e)[:300]})
        return False
    d = diff_content(data_content(data), data_content(rebuilt))
    if d:
        R.bad("databook-content", "C16:edited-databook-round-trip-content[%s]" % "+".join(sorted(set(applied))), {"difference": d, "ops": applied})
    else:
        R.ok("databook-content")
    try:
        rA = sim(P, psA)
        rB = sim(P, psB)
    except Exception as e:
        R.count("edited_databook_run_failed[%s]" % type(e).__name__)
        return False
    diffs = compare_runs(R, "data_ops", rA, rB, sens=(P, psA))
    if diffs:
        R.bad("behaves-as-visible-data", "C16:edited-databook-differs-from-rebuilt[%s]" % "+".join(sorted(set(applied))), {"ops": applied, "first_differences": diffs})
    elif diffs is not None:
        R.ok("behaves-as-visible-data")
    return bool(applied) and any(o != "copy" for o in applied)


def parset_ops(R, case, P, spec, pset, instr, rng):
    import atomica as at
    import pandas as pd
    import sciris as sc

    R.count("operation_sequences")
    ps = P.parsets[0]
    try:
        untouched = sim(P, ps)
    except Exception:
        return False
    expect = sc.dcp(ps)
    applied = []
    for op in case["ops"]:
        try:
            if op == "copy":
                ps = ps.copy("c")
            elif op == "sample0":
                # zero / absent uncertainty everywhere: the sampled parameter set must equal the unsampled one
                src = sc.dcp(ps)
                for par in src.all_pars():
                    for ts in par.ts.values():
                        ts.sigma = 0.0 if rng.random() < 0.5 else None
                ps = src.sample()
                expect = src
            elif op.startswith("load_calibration"):
                donor = sc.dcp(ps)
                for par in list(donor.pars.values())[:: max(1, len(donor.pars) // 5)]:
                    for pop in par.y_factor:
                        par.y_factor[pop] = float(rng.choice([0.5, 1.5, 0.75]))
                ss = donor.calibration_spreadsheet()
                if op == "load_calibration":
                    ps.load_calibration(ss)
                    expect = sc.dcp(ps)
                    for name, par in donor.pars.items():
                        for pop, f in par.y_factor.items():
                            expect.pars[name].y_factor[pop] = f
                else:
                    df = pd.read_excel(ss.pandas(), "Y-factors")
                    if op == "load_calibration_unknown_rows":
                        where = str(rng.choice(["first", "middle", "last"]))
                        row = {c: np.nan for c in df.columns}
                        row["par"] = "no_such_parameter"
                        row["meta_y_factor"] = 3.0
                        pos = {"first": 0, "middle": len(df) // 2, "last": len(df)}[where]
                        df = pd.concat([df.iloc[:pos], pd.DataFrame([row]), df.iloc[pos:]], ignore_index=True)
                        R.count("unknown_row[%s]" % where)
                        expect = sc.dcp(ps)
                        for name, par in donor.pars.items():
                            for pop, f in par.y_factor.items():
                                expect.pars[name].y_factor[pop] = f
                    elif op == "load_calibration_blank_cells":
                        # blank (missing) entries keep the existing value
                        expect = sc.dcp(ps)
                        popcols = [c for c in df.columns if c not in ("par", "pop", "meta_y_factor")]
                        for i_, r_ in df.iterrows():
                            for c in popcols:
                                if rng.random() < 0.4:
                                    df.at[i_, c] = np.nan
                        for _, r_ in df.iterrows():
                            if r_["par"] in expect.pars and pd.isna(r_["pop"]):
                                for pop in expect.pars[r_["par"]].y_factor:
                                    if pop in r_ and not pd.isna(r_[pop]):
                                        expect.pars[r_["par"]].y_factor[pop] = float(r_[pop])
                    else:
                        drop = df.index[:: 2]
                        kept = df.drop(drop)
                        expect = sc.dcp(ps)
                        for _, r_ in kept.iterrows():
                            if r_["par"] in expect.pars and pd.isna(r_["pop"]):
                                for pop in expect.pars[r_["par"]].y_factor:
                                    if pop in r_ and not pd.isna(r_[pop]):
                                        expect.pars[r_["par"]].y_factor[pop] = float(r_[pop])
                        df = kept
                    f = io.BytesIO()
                    with pd.ExcelWriter(f, engine="xlsxwriter") as w:
                        df.to_excel(w, sheet_name="Y-factors", index=False)
                    ps.load_calibration(sc.Spreadsheet(f))
            applied.append(op)
        except Exception as e:
            R.bad("operation-succeeds", "C16:parset-operation-fails[%s,%s]" % (op, type(e).__name__), {"op": op, "applied_before": applied, "error": str(e)[:300]})
            return False
        # after each operation: y-factors are the expected ones
        a = {k: {kk: num(vv) for kk, vv in v.items()} for k, v in expect.y_factors.items()}
        b = {k: {kk: num(vv) for kk, vv in v.items()} for k, v in ps.y_factors.items()}
        d = diff_content(a, b)
        if d:
            R.bad("calibration-load-semantics", "C16:y-factors-after-%s-differ" % op, {"difference": d})
            return False
        R.ok("calibration-load-semantics")
    for op in applied:
        R.count("op[%s]" % op)
    try:
        rA = sim(P, ps)
        rB = sim(P, expect)
    except Exception as e:
        R.count("parset_run_failed[%s]" % type(e).__name__)
        return False
    diffs = compare_runs(R, "parset_ops", rA, rB, sens=(P, ps))
    if diffs:
        R.bad("behaves-as-visible-data", "C16:edited-parset-differs-from-expected[%s]" % "+".join(sorted(set(applied))), {"ops": applied, "first_differences": diffs})
    elif diffs is not None:
        R.ok("behaves-as-visible-data")
    return any(o.startswith("load_calibration") for o in applied)

"""C06 - parameter values follow data x calibration -> function -> program -> limits."""

import numpy as np

from av import gen, parref, ref, simcase
from av.props import simprop

MANIFEST_ENTRY = {
    "category": "exploration",
    "technique": "offline reference recomputation of every recorded parameter value (per parameter, population and time index) from the ParameterSet, the framework table, the recorded same-step dependency values and the program outcomes, with an independent interpolation routine and an independent expression evaluator; generated models, library models and shipped (corpus) models under perturbation",
    "text": "For every parameter of every run the expected value is rebuilt: own interpolation of the databook series (exact at entered years, linear between, constant outside, assumption) x population and meta calibration factors; replaced by scale x f(recorded, already-limited same-step dependencies) when a function is defined and the time is outside the scenario skip window (dependencies: compartments, characteristics, parameters, annualised flows, t, dt; cross-population aggregations by the documented weighted sum/average); replaced by the program outcome (converted for number and per-year units) while programs are active and target it; finally clipped to the framework limits. Because dependents are recomputed from recorded dependency values, a dependent that was fed an unclipped, stale or out-of-order value shows up as a mismatch. Transfer parameters and parameter scenarios (linear and stepped, on data and function parameters) are included. Every 8th case is a model shipped with the repository (49 library / fixture framework-databook(-program book) combinations and 18 fixture frameworks with a generated databook: several population types, interactions, derivative parameters, hand-made junction and duration-group layouts) run under perturbation: other step sizes and horizons, calibration factors from mild to hostile, program books switched on at arbitrary years with scaled budgets. The initial compartment sizes are checked against every set-up quantity recomputed with population and all-population calibration factors on denominators and fractions (library and generated cases). A fifth of the generated models contain a chain A -> B -> C below a programme-targeted parameter A (B depends on parameters only and drives nothing itself). Half of the scenarios in models with a population aggregation overwrite the aggregation for one population only. Scenario overwrite points are listed in any order. A fifth of the cases enter whole-number constants of targeted parameters as Python / numpy integers.",
    "note": "Reported characteristics use the documented 0 below 1e-6 people convention while the integrator divides without the cut-off; when such a characteristic is a dependency the value computed under either convention is accepted. rtol 1e-9 (1e-8 when the function contains **).",
}

META = {
    "level": "exploration",
    "rule": "cases = random ModelSpecs with dependency chains/diamonds of function parameters, sparse data patterns, calibration factors in {0,0.3,1,2.5}, all limit patterns, cross-population aggregations, 50% with generated program sets, 30% with a parameter scenario (linear/stepped, on data or function parameters or transfers), plus library models; non-trivial = a limit binds at some step and some function parameter depends on another function parameter; distinct = spec fingerprints",
    "deciding_counters": ["parameter_arrays_checked", "function_values_checked", "data_values_checked"],
    "assumptions": ["ill-posed junction runs and non-finite function values are outside the domain (counted)", "derivative parameters and functions calling rand/randn are not judged"],
    "case_timeout": 300,
}

LIB = ["sir", "tb", "hypertension", "hypertension_dyn", "udt", "udt_dyn", "usdt", "hiv", "hiv_dyn", "diabetes", "cervicalcancer", "tb_simple", "tb_simple_dyn", "combined", "dt", "service", "sir_vaccine"]
N = {"quick": 480, "thorough": 15000}


def count(tier, seed):
    return N[tier] + len(LIB)


def make_case(tier, seed, index):
    if index < len(LIB):
        return {"kind": "library", "name": LIB[index], "programs": bool((seed + index) % 2 == 0)}
    rng = gen.rng_for(seed, 6, index)
    if index % simprop.CORPUS_EVERY == simprop.CORPUS_EVERY - 1:
        from av import corpus

        return corpus.make_case(rng, max_steps=30 if tier == "quick" else 60)
    pf = {"p_function": 0.65, "p_limits": 0.7, "p_yfactor": 0.6, "n_aux": (1, 4), "p_aggregation": 0.35, "p_targetable": 0.5, "value_classes": ["mild", "mild", "binding_limits", "binding_limits", "negative_functions", "mixed_scale", "rates_high"]}
    if tier == "thorough":
        pf["steps"] = (3, 50)
    spec = gen.gen_spec(rng, pf)
    if rng.random() < 0.2:
        # whole-number constants entered as integers through the API (Python int or numpy integer), on targetable parameters
        # without limits and calibration factors: they are numbers like any other
        cands_i = [p for p in spec["pars"] if p["db"] and not p["function"] and not p["timed"] and p.get("targetable") and p["format"] in ("rate", "probability", "number") and p["name"].startswith("q")]
        for p in cands_i[:2]:
            for pop in spec["pops"]:
                spec["values"].setdefault(p["name"], {})[pop] = {"a": float(rng.integers(1, 4)), "int": "python" if rng.random() < 0.5 else "numpy"}
            p["min"] = p["max"] = None
            spec.get("yfactors", {}).pop(p["name"], None)
            spec.get("meta_yfactors", {}).pop(p["name"], None)
    ps = gen.gen_progspec(rng, spec) if rng.random() < 0.5 else None
    scen = None
    if rng.random() < 0.3:
        cands = [p for p in spec["pars"] if not p["timed"] and (p["db"] or p["function"]) and not p["name"].startswith(("agg", "out"))]
        aggs = [p for p in spec["pars"] if p["name"].startswith("agg")]
        if cands:
            p = cands[int(rng.integers(0, len(cands)))]
            if aggs and len(spec["pops"]) >= 2 and rng.random() < 0.5:
                p = aggs[0]  # a scenario on a population aggregation, for one population only: the others keep being aggregated
            s = spec["settings"]
            y0 = float(s["start"] + rng.uniform(0.05, 0.9) * (s["end"] - s["start"]))
            if rng.random() < 0.5:
                y0 = float(s["start"] + s["dt"] * int(rng.integers(0, max(1, round((s["end"] - s["start"]) / s["dt"])))))
            k = int(rng.integers(1, 4))
            ts = sorted({y0} | {float(y0 + rng.uniform(0, 1) * (s["end"] - y0 + 1)) for _ in range(k - 1)})
            scen = {"par": p["name"], "pop": spec["pops"][int(rng.integers(0, len(spec["pops"])))], "t": ts, "y": [gen.sample_value(rng, p["format"], "mild") for _ in ts], "interpolation": "linear" if rng.random() < 0.5 else "previous"}
            if len(ts) >= 2 and rng.random() < 0.4:
                order_ = [int(i) for i in rng.permutation(len(ts))]  # the overwrite points may be listed in any order
                scen["t"], scen["y"] = [scen["t"][i] for i in order_], [scen["y"][i] for i in order_]
    return {"kind": "generated", "spec": spec, "progspec": ps, "scenario": scen}


def check_parameters(R, view, parset, progset, instr, spec=None):
    pr = parref.ParRef(view, parset, progset, instr)
    chains = False
    binding = 0
    fw = view.fw
    for (pop, name), par in view.pars.items():
        got = np.array(par.vals, dtype=float, copy=True)
        if name not in fw.pars.index:
            # transfer parameter: data x calibration, limits [0, inf) ([1e-6, inf) for durations)
            exp = transfer_expected(view, parset, pop, name, par)
            if exp is None:
                continue
            R.count("transfer_arrays_checked")
            ok = np.isclose(got, exp, rtol=1e-9, atol=0, equal_nan=True)
            if not np.all(ok):
                i = int(np.argmax(~ok))
                R.bad("transfer=data*calibration", "C06:transfer-value-differs[%s]" % par.units, {"par": name, "pop": pop, "index": i, "recorded": float(got[i]), "expected": float(exp[i])})
            else:
                R.ok("transfer=data*calibration")
            continue
        out = pr.expected(pop, name)
        if out is None:
            R.count("parameters_not_judged")
            continue
        exp, alt, info = out
        R.count("parameter_arrays_checked")
        rtol = 1e-8 if info.get("pow") else 1e-9
        atol = info.get("atol", 1e-300)  # absorbs cancellation in functions such as 1-(1-x)**n: relative to the dependency magnitudes
        with np.errstate(all="ignore"):
            ok = np.isclose(got, exp, rtol=rtol, atol=atol, equal_nan=True) | (got == exp)
            if alt is not None:
                ok |= np.isclose(got, alt, rtol=rtol, atol=atol, equal_nan=True) | (got == alt)
        # expected not finite because a dependency is not finite: outside 'finite inputs'
        ok |= ~np.isfinite(exp) & ~np.isfinite(got)
        src = "+".join(info["source"]) or "data"
        if "function" in info["source"] or "aggregation" in info["source"]:
            R.count("function_values_checked", view.T)
        else:
            R.count("data_values_checked", view.T)
        if "program" in info["source"]:
            R.count("program_values_checked")
        binding += info.get("binding_steps", 0)
        if not np.all(ok):
            i = int(np.argmax(~ok))
            row = fw.pars.loc[name]
            stage = src
            if pr.program_vals is not None and (name, pop) in pr.program_vals and i in pr.program_vals[(name, pop)]:
                stage = "program-step"
            lim = "limited" if info.get("binding_steps") else "unlimited"
            R.bad("parameter=pipeline", "C06:parameter-value-differs[%s,%s]" % (stage, lim), {"par": name, "pop": pop, "index": i, "t": float(view.t[i]), "recorded": float(got[i]), "expected": float(exp[i]), "alt": None if alt is None else float(alt[i]), "function": row["function"] if isinstance(row["function"], str) else None, "min": float(row["minimum value"]), "max": float(row["maximum value"]), "scale": None})
        else:
            R.ok("parameter=pipeline")
        fcn = fw.pars.at[name, "function"]
        if isinstance(fcn, str):
            for d in parref.feval.names(fcn) if not fcn.startswith(("SRC_", "TGT_")) else []:
                if d in fw.pars.index and isinstance(fw.pars.at[d, "function"], str):
                    chains = True
    return chains, binding


def check_initial_sizes(R, P, view, parset):
    """'Initial-size data are scaled by calibration factors in the same way': every set-up quantity at the first time point
    is its databook value at the start year x population factor x all-population factor (x its denominator, scaled the
    same way).  Populations in which a junction starts non-empty are skipped (the start-up flush moves those people)."""
    from av.props import c07

    fw = view.fw
    juncs = {n for n, row in fw.comps.iterrows() if row["is junction"] == "y"}
    for pop in list(P.data.pops.keys()):
        if any(float(c["vals"][0]) != 0 or (c["name"] in parset.pars and pop in parset.pars[c["name"]].ts and parset.pars[c["name"]].has_values(pop) and float(parset.pars[c["name"]].interpolate(view.t[:1], pop)[0]) != 0) for c in view.comps if c["pop"] == pop and c["name"] in juncs):
            R.count("initial_sizes_skipped[junction starts non-empty]")
            continue
        try:
            targets = c07.init_targets(P, fw, pop)
        except Exception:
            R.count("initial_sizes_not_computable")
            continue
        if any(m in juncs for _n, mem, _v in targets for m in mem):
            R.count("initial_sizes_skipped[junction is a member of a set-up quantity]")
            continue
        for name, members, val in targets:
            if not np.isfinite(val):
                continue
            got = sum(float(c["vals"][0]) for c in view.comps if c["pop"] == pop and c["name"] in members)
            R.count("initial_sizes_checked")
            tol = (len(members) + 1) * 1e-6 + 1e-9 * abs(val)
            if not abs(got - val) <= tol:
                kind = "fraction" if (name in fw.characs.index and isinstance(fw.characs.loc[name]["denominator"], str)) else "number"
                pp = parset.pars[name]
                cal = "meta" if float(pp.meta_y_factor) != 1 else ("population" if float(pp.y_factor[pop]) != 1 else "none")
                R.bad("initial-size=data*calibration", "C06:initial-size-differs[%s,calibration=%s]" % (kind, cal), {"quantity": name, "pop": pop, "expected": val, "got": got, "y_factor": float(pp.y_factor[pop]), "meta_y_factor": float(pp.meta_y_factor)})
            else:
                R.ok("initial-size=data*calibration")


def transfer_expected(view, parset, pop, name, par):
    for tname, bysrc in parset.transfers.items():
        if not name.startswith(tname + "_"):
            continue
        if pop not in bysrc:
            continue
        tp = bysrc[pop]
        for to_pop in tp.ts:
            if name == "%s_%s_to_%s" % (tname, pop, to_pop):
                v = parref.interp_series(tp.ts[to_pop], view.t) * float(tp.y_factor[to_pop]) * float(tp.meta_y_factor)
                lo = 1e-6 if par.units == "duration" else 0.0
                return np.clip(v, lo, np.inf)
    return None


def run_case(case):
    import atomica as at

    R = ref.Recs()
    if case["kind"] == "library":
        name = case["name"]
        P = at.Project(framework=at.LIBRARY_PATH / ("%s_framework.xlsx" % name), databook=at.LIBRARY_PATH / ("%s_databook.xlsx" % name), do_run=False)
        pset = instr = None
        pb = at.LIBRARY_PATH / ("%s_progbook.xlsx" % name)
        if case["programs"] and pb.exists():
            pset = P.load_progbook(pb)
            instr = at.ProgramInstructions(start_year=P.settings.sim_start + 2.5)
        parset = P.parsets[0]
        # all-population calibration factor on the denominators of set-up fractions (and population factors on the fractions):
        # 'initial-size data are scaled by calibration factors in the same way'
        fwl = P.framework
        touched = []
        for cn, row in fwl.characs.iterrows():
            if row["setup weight"] > 0 and isinstance(row["denominator"], str) and row["denominator"] in parset.pars:
                parset.pars[row["denominator"]].meta_y_factor = 1.5
                for pop_ in parset.pars[cn].pops:
                    parset.pars[cn].y_factor[pop_] = 0.8
                touched.append(cn)
        try:
            result = P.run_sim(parset, progset=pset, progset_instructions=instr)
            if touched:
                R.count("library_runs_with_calibrated_setup_fractions")
        except Exception as e:
            if type(e).__name__ != "BadInitialization":
                raise
            for cn in touched:  # the calibrated set-up data are not consistent for this model: run it as shipped
                parset.pars[fwl.characs.loc[cn]["denominator"]].meta_y_factor = 1.0
                for pop_ in parset.pars[cn].pops:
                    parset.pars[cn].y_factor[pop_] = 1.0
            result = P.run_sim(parset, progset=pset, progset_instructions=instr)
        view = ref.View(result)
        check_initial_sizes(R, P, view, parset)
        chains, binding = check_parameters(R, view, parset, result.model.progset if pset is not None else None, instr)
        return {"records": R.records(), "stats": R.stats, "nontrivial": True, "sample": {"kind": "library", "name": name, "programs": pset is not None}}

    if case["kind"] == "corpus":
        from av import corpus

        R.count("corpus_cases")
        P, pset, instr = corpus.build(case)
        parset = P.parsets[0]
        try:
            result = P.run_sim(parset, progset=pset, progset_instructions=instr)
        except Exception as e:
            if type(e).__name__ == "BadInitialization":
                return {"records": R.records(), "stats": R.stats, "nontrivial": False, "excluded": "perturbed databook cannot be initialised"}
            raise
        view = ref.View(result)
        if view.ill_posed_junctions():
            R.count("illposed_runs")
            return {"records": R.records(), "stats": R.stats, "nontrivial": False, "excluded": "ill-posed junction"}
        chains, binding = check_parameters(R, view, parset, result.model.progset if pset is not None else None, instr)
        if parset.initialization is None:
            check_initial_sizes(R, P, view, parset)
        return {"records": R.records(), "stats": R.stats, "nontrivial": bool(chains), "sample": dict(corpus.describe(case))}
    spec, ps, scen = case["spec"], case.get("progspec"), case.get("scenario")
    P = gen.build_project(spec)
    parset = P.parsets[0]
    pset = instr = None
    if ps is not None:
        pset = gen.build_progset(ps, P.framework, P.data)
        instr = gen.build_instructions(ps)
    if scen is not None:
        scenario = at.ParameterScenario(name="scen", interpolation=scen["interpolation"])
        scenario.add(scen["par"], scen["pop"], scen["t"], scen["y"])
        try:
            parset = scenario.get_parset(parset, P)
        except Exception as e:
            R.count("scenario_not_applicable[%s]" % type(e).__name__)
            scen = None
            parset = P.parsets[0]
    try:
        P.parsets["run"] = parset
    except Exception:
        pass
    try:
        result = P.run_sim(parset, progset=pset, progset_instructions=instr)
    except Exception as e:
        if "has no values to use instead" in str(e) or isinstance(e, AssertionError):
            R.count("run_rejected[%s]" % type(e).__name__)
            return {"records": R.records(), "stats": R.stats, "nontrivial": False, "excluded": "run rejected: " + str(e)[:100]}
        raise
    view = ref.View(result)
    R.count("runs")
    if view.ill_posed_junctions():
        R.count("illposed_runs")
        return {"records": R.records(), "stats": R.stats, "nontrivial": False, "excluded": "ill-posed junction"}
    tp = simcase.first_bad([p.vals for p in view.pars.values() if not simcase._is_output_only(p) and np.all(np.isfinite(np.asarray(p.vals, dtype=float)[:1]))])
    chains, binding = check_parameters(R, view, parset, result.model.progset if pset is not None else None, instr, spec)
    if getattr(parset, "initialization", None) is None:
        check_initial_sizes(R, P, view, parset)
    # scenario semantics: values from the first overwrite year onward are the scenario series
    if scen is not None and (scen["pop"], scen["par"]) in view.pars:
        par = view.pars[(scen["pop"], scen["par"])]
        t = view.t
        after = t >= min(scen["t"])
        if np.any(after) and not (pset is not None and (scen["par"], scen["pop"]) in pset.covouts):
            R.count("scenario_runs")
            o_ = np.argsort(np.array(scen["t"]))
            tt, yy = np.array(scen["t"])[o_], np.array(scen["y"])[o_]
            if scen["interpolation"] == "linear":
                exp = np.interp(t[after], tt, yy)
            else:
                idx = np.clip(np.searchsorted(tt, t[after], side="right") - 1, 0, len(tt) - 1)
                exp = yy[idx]
            pp = parset.pars[scen["par"]]
            exp = exp * float(pp.y_factor[scen["pop"]]) * float(pp.meta_y_factor)
            row = view.fw.pars.loc[scen["par"]]
            lo = row["minimum value"] if np.isfinite(row["minimum value"]) else -np.inf
            hi = row["maximum value"] if np.isfinite(row["maximum value"]) else np.inf
            exp = np.clip(exp, lo, hi)
            got = np.asarray(par.vals, dtype=float)[after]
            if not np.allclose(got, exp, rtol=1e-9, atol=1e-300):
                i = int(np.argmax(~np.isclose(got, exp, rtol=1e-9, atol=1e-300)))
                R.bad("scenario-values-from-first-overwrite", "C06:scenario-value-not-used[%s,%s]" % (scen["interpolation"], "function" if isinstance(row["function"], str) else "data"), {"par": scen["par"], "pop": scen["pop"], "t": float(t[after][i]), "recorded": float(got[i]), "expected": float(exp[i]), "scenario": scen})
            else:
                R.ok("scenario-values-from-first-overwrite")
    sample = dict(simprop.sample_of(spec))
    sample["programs"] = ps is not None
    sample["scenario"] = scen
    return {"records": R.records(), "stats": R.stats, "nontrivial": bool(chains and binding > 0), "sample": sample}

"""C05 - timed compartments release every cohort exactly when its duration expires."""

import numpy as np

from av import gen, ref, simcase
from av.props import simprop

MANIFEST_ENTRY = {
    "category": "exploration",
    "technique": "impulse-response monitor on the public Result (unambiguous single-cohort histories), occupancy-bound invariant on every run, and a bin-level reference keyring stepped one step ahead from the recorded per-bin state; generated and shipped (corpus) timed models, calibrated durations",
    "text": "(1) purpose-built models inject a cohort in exactly one step (time-varying number data) into a timed compartment with duration D and optional competing outflows of fraction q: the timed outflow must be zero before index s+n, carry cohort*(1-q)^n at s+n and nothing afterwards, with n = max(1, ceil(D/dt)) and n = k when D/dt is k up to rounding (D = k/den, dt = 1/den for den in {3,4,7,10,12,52,365}); uniform initial occupants must leave as x0/n per step over the first n steps; D < dt empties the compartment every step. (2) in every generated run (duration groups of 1-3 members, group junctions, per-population durations connected by transfers, hostile rates) the group occupancy is bounded by the arrivals of the preceding n steps plus the unexpired initial share. (3) the per-bin contents are predicted one step ahead by an independent keyring model (arrivals enter the last bin, bins shift, duration-preserving links move bin for bin and never out of the final bin, other links act on all bins, the flush link takes what remains in bin 0, longer/shorter destination durations as documented) and compared with the recorded bins. Every 8th case is a model shipped with the repository (49 library / fixture framework-databook(-program book) combinations and 18 fixture frameworks with a generated databook: several population types, interactions, derivative parameters, hand-made junction and duration-group layouts) run under perturbation: other step sizes and horizons, calibration factors from mild to hostile, program books switched on at arbitrary years with scaled budgets. About a third of the generated runs carry a generated program set (program-driven rates, numbers and junction proportions, boundary outcomes of exactly 0). Duration parameters carry calibration factors (a doubly applied factor was a defect of the pinned tree). A fifth of the timed durations are defined by a parameter function while the databook holds a different value (the bins must follow the function). Durations that exceed a whole number k of steps by 1e-7 ... 4e-6 k need k + 1 steps.",
    "note": "(3) reads the internal per-bin arrays; if they disappear that sub-claim is inconclusive and (1),(2) on the public surface still decide.",
}

META = {
    "level": "exploration",
    "rule": "cases = 'impulse' (hand-built single-cohort models over random D, dt, q, cohort step; D/dt integer, non-integer, <1, >>1, integer-up-to-rounding) and 'generated' (random ModelSpecs with duration groups forced); non-trivial = a timed compartment received and released at least one cohort; distinct = spec fingerprints",
    "deciding_counters": ["impulse_cases", "steps_with_timed_release", "bin_steps_checked"],
    "assumptions": ["n = k whenever |D/dt - k| <= 1e-9 k"],
    "case_timeout": 120,
}

N_IMP = {"quick": 260, "thorough": 6000}
N_GEN = {"quick": 380, "thorough": 12000}
DENS = [3, 4, 7, 10, 12, 52, 365]


def count(tier, seed):
    return N_IMP[tier] + N_GEN[tier]


def make_case(tier, seed, index):
    if index < N_IMP[tier]:
        rng = gen.rng_for(seed, 5, index)
        u = rng.random()
        if u < 0.45:
            den = int(DENS[int(rng.integers(0, len(DENS)))])
            k = int(rng.integers(1, 14))
            dt = 1.0 / den
            D = k / den  # k steps exactly, up to rounding
            regime = "integer-up-to-rounding"
        elif u < 0.52:
            # a duration that exceeds k steps by a small but real amount (far above rounding error): it needs k + 1 steps
            dt = float(gen._choice(rng, gen.DTS))
            k = int(rng.integers(1, 14))
            D = dt * k * (1.0 + float(rng.choice([1e-7, 1e-6, 4e-6])))
            regime = "just-above-integer"
        elif u < 0.6:
            dt = float(gen._choice(rng, gen.DTS))
            D = dt * float(rng.uniform(0.05, 0.95))
            regime = "<1"
        elif u < 0.8:
            dt = float(gen._choice(rng, gen.DTS))
            D = dt * float(rng.uniform(1.05, 9.9))
            regime = "non-integer"
        else:
            dt = float(gen._choice(rng, gen.DTS))
            D = dt * int(rng.integers(1, 40))
            regime = "integer"
        tscale = gen._choice(rng, [None, 1.0, 1 / 12, 1 / 52])
        q = 0.0 if rng.random() < 0.4 else float(rng.uniform(0.02, 0.6))
        nsteps = int(rng.integers(6, 30)) + int(D / dt) + 2
        s = int(rng.integers(0, 4))
        return {"kind": "impulse", "D": D, "dt": dt, "timescale": tscale, "q": q, "s": s, "nsteps": nsteps, "cohort": float(10 ** rng.uniform(0, 5)), "x0": float(rng.choice([0.0, 0.0, 100.0, 1e4])), "start": float(rng.choice([2000.0, 2000.5, 2017.25])), "regime": regime}
    rng = gen.rng_for(seed, 5, 100000 + index)
    if index % simprop.CORPUS_EVERY == simprop.CORPUS_EVERY - 1:
        from av import corpus

        return corpus.make_case(rng, max_steps=40 if tier == "quick" else 80, prefer=("timed",))  # mostly the models that have timed compartments
    pf = {"p_timed": 1.0, "p_group_junction": 0.5, "p_transfer": 0.7, "n_pops": (1, 3), "n_ord": (3, 6)}
    if tier == "thorough":
        pf["steps"] = (5, 60)
    pf["p_targetable"] = 0.5
    spec = gen.gen_spec(rng, pf)
    rng2 = gen.rng_for(seed, 5, 500000 + index)
    return {"kind": "generated", "spec": spec, "progspec": gen.gen_progspec(rng2, spec) if rng2.random() < 0.35 else None}


def impulse_spec(case):
    dt, D, q = case["dt"], case["D"], case["q"]
    T_ = case["timescale"]
    start = case["start"]
    tgrid = [start + k * dt for k in range(case["nsteps"] + 1)]
    s = case["s"]
    # birth parameter: non-zero only at grid index s (linear interpolation between exact grid points)
    tt, vv = [], []
    for k in (s - 1, s, s + 1):
        if k >= 0:
            tt.append(tgrid[k])
            vv.append(case["cohort"] / dt if k == s else 0.0)  # number per year so that cohort people move in that step
    comps = [{"name": "src", "kind": "src", "db": False}, {"name": "tim", "kind": "ord", "db": True}, {"name": "away", "kind": "ord", "db": True}, {"name": "done", "kind": "sink", "db": False}]
    pars = [
        {"name": "birth", "format": "number", "timescale": None, "min": 0.0, "max": None, "function": None, "db": True, "timed": False, "targetable": False},
        {"name": "dur", "format": "duration", "timescale": T_, "min": None, "max": None, "function": None, "db": True, "timed": True, "targetable": False},
        {"name": "leak", "format": "probability", "timescale": None, "min": 0.0, "max": None, "function": None, "db": True, "timed": False, "targetable": False},
    ]
    trans = [["src", "tim", "birth"], ["tim", "done", "dur"], ["tim", "away", "leak"]]
    Tval = T_ if T_ else 1.0
    values = {
        "tim": {"popa": {"a": case["x0"]}},
        "away": {"popa": {"a": 0.0}},
        "birth": {"popa": {"t": tt, "v": vv}},
        "dur": {"popa": {"a": D / Tval}},
        "leak": {"popa": {"a": q / dt}},  # per-step fraction q
    }
    return {"comps": comps, "characs": [{"name": "alive", "components": ["tim", "away"], "denominator": None, "db": False}], "pars": pars, "trans": trans, "pops": ["popa"], "transfers": [], "values": values, "yfactors": {}, "years": [float(int(start)), float(int(start) + 1)], "settings": {"start": start, "end": tgrid[-1], "dt": dt}, "meta": {"vclass": "impulse", "groups": [{"par": "dur", "members": ["tim"]}]}, "interactions": []}


def run_impulse(case, R):
    spec = impulse_spec(case)
    P = gen.build_project(spec)
    result = P.run_sim(P.parsets[0])
    view = ref.View(result)
    R.count("impulse_cases")
    R.count("impulse_regime[%s]" % case["regime"])
    dt, D, q, s = case["dt"], case["D"], case["q"], case["s"]
    n = ref.expected_bins(D, dt)
    T = view.T
    if T - 1 != case["nsteps"]:
        R.count("impulse_grid_mismatch")
    comp = [c for c in view.comps if c["name"] == "tim"][0]
    flush = [l for l in comp["out"] if l["flush"]][0]["vals"]
    birth = [l for l in view.links if l["src"]["kind"] == "src"][0]["vals"]
    leak = [l for l in comp["out"] if not l["flush"]][0]["vals"]
    x0 = case["x0"]
    cohort = case["cohort"]
    wit = {"D": D, "dt": dt, "D/dt": D / dt, "n_expected": n, "q": q, "s": s, "cohort": cohort, "x0": x0, "flush": flush[: s + n + 4].tolist(), "birth": birth[: s + 3].tolist(), "regime": case["regime"]}
    # the injected history is what we think it is
    exp_birth = np.zeros(T)
    if s < T:
        exp_birth[s] = cohort
    if not np.allclose(birth, exp_birth, rtol=1e-9, atol=1e-9 * cohort):
        R.count("impulse_input_not_single_step")
        return {"records": R.records(), "stats": R.stats, "nontrivial": False, "inconclusive": "inflow history is not a single-step impulse"}
    # expected flush: initial occupants x0/n per index 0..n-1 thinned by (1-q)^(i+1); cohort at s+n thinned by (1-q)^n
    exp = np.zeros(T)
    for i in range(min(n, T)):
        exp[i] += (x0 / n) * (1 - q) ** (i + 1)
    if s + n < T:
        exp[s + n] += cohort * (1 - q) ** n
    tol = 1e-9 * max(1.0, cohort, x0)
    bad = np.abs(flush - exp) > tol
    if np.any(bad):
        i = int(np.argmax(bad))
        if i < s + n and flush[i] > exp[i] + tol:
            mech = "C05:released-early[%s]" % case["regime"]
        elif i == s + n:
            mech = "C05:not-released-on-time[%s]" % case["regime"]
        else:
            mech = "C05:release-history-differs[%s]" % case["regime"]
        wit["index"] = i
        wit["expected_flush"] = exp[: s + n + 4].tolist()
        R.bad("cohort-released-exactly-at-s+n", mech, wit)
    else:
        R.ok("cohort-released-exactly-at-s+n")
    # nobody stays longer than n steps: after index max(n, s+n) the compartment is empty
    last = max(n, s + n) + 1
    if last < T and np.any(comp["vals"][last:] > tol):
        R.bad("nobody-stays-longer-than-n", "C05:occupants-after-expiry[%s]" % case["regime"], wit)
    else:
        R.ok("nobody-stays-longer-than-n")
    ref.check_timed_bins(view, R)
    ref.check_occupancy_bound(view, R)
    ref.check_conservation(view, R, prefix="C05")
    return {"records": R.records(), "stats": R.stats, "nontrivial": bool(s + n < T), "sample": {"kind": "impulse", **{k: case[k] for k in ("D", "dt", "q", "s", "cohort", "x0", "regime")}}}


def run_case(case):
    R = ref.Recs()
    if case["kind"] == "impulse":
        return run_impulse(case, R)
    spec = case.get("spec")
    try:
        P, result, view = simcase.simulate_case(case, R)
    except simcase.Excluded as e:
        return {"records": R.records(), "stats": R.stats, "nontrivial": False, "excluded": e.reason}
    ref.check_timed_bins(view, R)
    ref.check_occupancy_bound(view, R)
    ref.check_flows(view, R, prefix="C05")
    nontrivial = R.stats.get("steps_with_timed_release", 0) > 0
    for f in simprop.features(view):
        R.count("feature[%s]" % f)
    return {"records": R.records(), "stats": R.stats, "nontrivial": bool(nontrivial), "sample": simprop.sample_of_case(case)}

"""C19 - parameter functions can only do arithmetic with whitelisted functions."""

import ast
import itertools
import math
import os
import sys
import tempfile

import numpy as np

from av import gen, ref

MANIFEST_ENTRY = {
    "category": "exploration",
    "technique": "accept/reject oracle over an exhaustive enumeration of expression-node nestings handed to the real parse_function, sys.addaudithook side-effect sanitizer around parsing and evaluation, and an independent AST evaluator as reference for accepted arithmetic; reference evaluation tracks conditioning",
    "text": "Every ast expression node class of the running interpreter is classified (must-reject / must-accept / don't-care, derived from the property text) and instantiated in minimal expressions, nested inside every allowed (and don't-care) context to depth 2 (quick) or 3 (thorough) - exhaustive for that space - and handed to the real parser; a must-class mismatch is a violation. While every accepted string is parsed and evaluated (scalars and arrays) in a scratch directory an audit hook records file, import, exec/compile, subprocess and socket events; any event other than the parser's own compile/eval of its AST is a violation. Random arithmetic expressions over the whitelist are evaluated by the returned closure and by an independent recursive evaluator (0/x = 0), and the reported dependency set is compared with the free names. Evaluation environments hold zeros, ordinary, tiny (1e-12 .. 1e-9) and large values; the comparison tolerance is relative to the largest intermediate value, and evaluations within rounding distance of (but not at) a discontinuity of floor, //, % or a comparison are counted, not judged. Chained comparisons are evaluated (scalars) as the conjunction of their pairwise comparisons. min / max with a single argument are part of the probes and of the generator; results behind pow / exp / sin / cos / ln are inexact and discontinuities or near-zero denominators behind them are counted, not judged. t and dt are among the names of generated expressions.",
    "note": "'All strings' beyond the enumerated nesting depth and the random expressions is out of reach of this technique and is not claimed. Trusts CPython's ast module and audit events.",
}

META = {
    "level": "exploration",
    "rule": "cases = batches of strings: (i) every disallowed-node template nested in every context chain of length <= depth (exhaustive; depth 2 quick, 3 thorough), (ii) must-accept templates in the same contexts, (iii) random arithmetic expressions over the whitelist evaluated against an independent evaluator, (iv) plot strings; a batch is non-trivial when it contains both accepted and rejected strings or at least one evaluated expression; distinct = batch fingerprints",
    "deciding_counters": ["must_reject_strings", "must_accept_strings", "evaluated_expressions", "audit_hook_active_evaluations"],
    "assumptions": ["any exception raised by parse_function counts as rejection (the exception type is C18's concern)", "don't-care constructs (boolean operators, if-expressions, subscripts, displays, string constants, bitwise operators, keyword arguments) are not judged unless they contain a must-reject node"],
    "exhaustive": {"quick": True, "thorough": True},
    "case_timeout": 600,
}

# ---------------------------------------------------------------------------------------------
# classification of every expression node class
# ---------------------------------------------------------------------------------------------
MUST_REJECT_NODES = {"Attribute", "Lambda", "ListComp", "SetComp", "DictComp", "GeneratorExp", "Await", "Yield", "YieldFrom", "NamedExpr", "Starred", "JoinedStr", "FormattedValue", "TemplateStr", "Interpolation"}
MUST_ACCEPT_NODES = {"BinOp", "UnaryOp", "Compare", "Call", "Constant", "Name"}
DONT_CARE_NODES = {"BoolOp", "IfExp", "Dict", "Set", "Subscript", "List", "Tuple", "Slice"}

# minimal well-formed expressions containing a must-reject construct: (label, string)
REJECT_TEMPLATES = [
    ("Attribute", "x.real"),
    ("Attribute", "x.y"),
    ("Attribute", "(x+1).T"),
    ("Attribute", "pi.real"),
    ("MethodCall", "x.sum()"),
    ("MethodCall", "x.tofile('pwned.bin')"),
    ("MethodCall", "''.join(x)"),
    ("MethodCall", "x.dump('pwned2.bin')"),
    ("UnlistedCall", "abs(x)"),
    ("UnlistedCall", "eval('1')"),
    ("UnlistedCall", "open('pwned3.txt','w')"),
    ("UnlistedCall", "print(x)"),
    ("UnlistedCall", "getattr(x,'real')"),
    ("UnlistedCall", "globals()"),
    ("UnlistedCall", "exec('1')"),
    ("UnlistedCall", "compile('1','s','eval')"),
    ("UnlistedCall", "type(x)"),
    ("UnlistedCall", "vars()"),
    ("UnlistedCall", "log(x)"),
    ("CallOfCall", "max(x,y)(z)"),
    ("CallOfSubscript", "x[0](y)"),
    ("CallOfLambda", "(lambda: 1)()"),
    ("CallOfIfExp", "(max if x else min)(1,2)"),
    ("Lambda", "lambda: x"),
    ("Lambda", "lambda y: y"),
    ("ListComp", "[y for y in x]"),
    ("SetComp", "{y for y in x}"),
    ("DictComp", "{y: y for y in x}"),
    ("GeneratorExp", "(y for y in x)"),
    ("GeneratorExp", "max(y for y in x)"),
    ("Await", "await x"),
    ("Yield", "(yield x)"),
    ("YieldFrom", "(yield from x)"),
    ("NamedExpr", "(y := x)"),
    ("Starred", "max(*x)"),
    ("Starred", "[*x]"),
    ("JoinedStr", "f'{x}'"),
    ("JoinedStr", "f'{x.real}'"),
    ("Dunder", "x__y"),
    ("Dunder", "__import__('os')"),
    ("Dunder", "x.__class__"),
    ("Dunder", "''.__class__.__mro__"),
]

ACCEPT_TEMPLATES = [
    ("Constant", "1"),
    ("Constant", "2.5"),
    ("Constant", "1e-3"),
    ("Name", "x"),
    ("BinOp", "x+y"),
    ("BinOp", "x-y"),
    ("BinOp", "x*y"),
    ("BinOp", "x/y"),
    ("BinOp", "x**2"),
    ("BinOp", "x//2"),
    ("BinOp", "x%2"),
    ("UnaryOp", "-x"),
    ("UnaryOp", "+x"),
    ("Compare", "x<y"),
    ("Compare", "x<=y"),
    ("Compare", "x>y"),
    ("Compare", "x>=y"),
    ("Compare", "x==y"),
    ("Compare", "x!=y"),
    ("Call", "max(x,y)"),
    ("Call", "min(x,y,z)"),
    ("Call", "exp(x)"),
    ("Call", "sqrt(x)"),
    ("Call", "floor(x)"),
    ("Call", "cos(x)"),
    ("Call", "sin(x)"),
    ("Call", "ln(x+1)"),
    ("Call", "sdiv(x,y)"),
    ("Name", "pi"),
    ("Selector", "a:b"),
    ("Selector", "x:flow"),
]

# contexts: format strings with one hole.  The first group is must-accept syntax, the second don't-care syntax.
ALLOWED_CONTEXTS = ["(%s)+1", "1+(%s)", "-(%s)", "(%s)*x", "x/(%s)", "(%s)/x", "(%s)**2", "2**(%s)", "(%s)//2", "(%s)%%2", "max(%s,1)", "min(1,%s)", "exp(%s)", "sqrt(%s)", "(%s)<1", "1>=(%s)", "(%s)==x", "sdiv(%s,2)", "+(%s)"]
DONTCARE_CONTEXTS = ["[%s][0]", "(%s) if x else y", "x if (%s) else y", "x and (%s)", "not (%s)", "(%s,1)", "{1:(%s)}", "x[%s]", "[1,(%s)]", "(%s)|1", "~(%s)"]


def context_chains(depth):
    ctx = ALLOWED_CONTEXTS + DONTCARE_CONTEXTS
    for d in range(0, depth + 1):
        for chain in itertools.product(range(len(ctx)), repeat=d):
            yield [ctx[i] for i in chain]


def nest(expr, chain):
    for c in chain:
        expr = c % expr
    return expr


DEPTH = {"quick": 2, "thorough": 3}
BATCH = 4000
N_RANDOM = {"quick": 24, "thorough": 400}  # batches of random expressions (250 each)


def _all_strings(tier):
    """Deterministic enumeration: index -> (label, must, string).  Generated lazily per batch."""
    depth = DEPTH[tier]
    n_chain = sum((len(ALLOWED_CONTEXTS) + len(DONTCARE_CONTEXTS)) ** d for d in range(depth + 1))
    return n_chain


def count(tier, seed):
    n_chain = _all_strings(tier)
    total = n_chain * (len(REJECT_TEMPLATES) + len(ACCEPT_TEMPLATES))
    nb = int(math.ceil(total / BATCH))
    return nb + N_RANDOM[tier] + 2


def make_case(tier, seed, index):
    n_chain = _all_strings(tier)
    total = n_chain * (len(REJECT_TEMPLATES) + len(ACCEPT_TEMPLATES))
    nb = int(math.ceil(total / BATCH))
    if index < nb:
        return {"kind": "enum", "tier": tier, "lo": index * BATCH, "hi": min(total, (index + 1) * BATCH)}
    index -= nb
    if index < N_RANDOM[tier]:
        return {"kind": "random", "seed": [seed, 19, index], "n": 250}
    index -= N_RANDOM[tier]
    return {"kind": "nodes" if index == 0 else "plotstrings"}


def enum_strings(tier, lo, hi):
    depth = DEPTH[tier]
    ctx = ALLOWED_CONTEXTS + DONTCARE_CONTEXTS
    nctx = len(ctx)
    templates = [("reject",) + t for t in REJECT_TEMPLATES] + [("accept",) + t for t in ACCEPT_TEMPLATES]
    nt = len(templates)
    # index = chain_index * nt + template_index ; chain_index enumerates chains by length then lexicographic
    offsets = [0]
    for d in range(depth + 1):
        offsets.append(offsets[-1] + nctx**d)
    for i in range(lo, hi):
        ci, ti = divmod(i, nt)
        d = max(k for k in range(depth + 1) if offsets[k] <= ci)
        r = ci - offsets[d]
        chain = []
        for _ in range(d):
            r, c = divmod(r, nctx)
            chain.append(c)
        must, label, s = templates[ti]
        allowed_only = all(c < len(ALLOWED_CONTEXTS) for c in chain)
        yield must, label, nest(s, [ctx[c] for c in chain]), allowed_only, d


# ---------------------------------------------------------------------------------------------
# audit hook (process-wide, installed once; events are attributed through a global slot)
# ---------------------------------------------------------------------------------------------
_AUDIT = {"active": False, "events": [], "installed": False}
_WATCH = ("open", "os.", "import", "exec", "compile", "subprocess", "socket", "shutil", "ctypes", "pty", "urllib", "ftplib", "glob", "pathlib", "tempfile")


def _hook(event, args):
    if not _AUDIT["active"]:
        return
    if event.startswith(_WATCH):
        if event == "compile":
            src = args[0] if args else None
            fn = args[1] if len(args) > 1 else None
            if isinstance(src, ast.AST) or fn == "<unknown>":
                return  # the parser's own ast.parse (filename '<unknown>') and compile of its AST object
        if event == "exec":
            code = args[0] if args else None
            if getattr(code, "co_filename", None) == "<ast>":
                return  # evaluation of the compiled expression
        _AUDIT["events"].append((event, repr(args)[:200]))


def audit(fn):
    if not _AUDIT["installed"]:
        sys.addaudithook(_hook)
        _AUDIT["installed"] = True
    _AUDIT["events"] = []
    _AUDIT["active"] = True
    try:
        out = fn()
    finally:
        _AUDIT["active"] = False
    return out, list(_AUDIT["events"])


# ---------------------------------------------------------------------------------------------
# independent evaluator
# ---------------------------------------------------------------------------------------------
from av.feval import DontCare, evaluate as _feval


def ref_eval(node, env):
    return _feval(node, env, strict=True)


PROBES = [
    "(max(3,1))**(-3)",
    "(min(2,5))**(-1)+x",
    "max(2,3,4)**(-2)*y",
    "(floor(7.5))**(-2)",
    "2**(-1)+x",
    "x*10**(-3)",
    "(x>0)*(3)**(-2)",
    "min(x,2)**(-1)",
    "max(x,y,z)/min(3,4)",
    "x*exp(-0.1*(t-2020))",
    "max(t-2020,0)+dt*y",
    "min(x)",
    "max(x)-min(x)",
    "max(y)+x*min(z)",
    "x<y<z",
    "x<y>z",
    "x>=y>=z",
    "(x<=y<z)*2+1",
    "z>y>x",
    "x<z<y",
    "y<x<=z",
    "(x!=y<z)+(z<y<x)",
]


def has_big_integer_constant(tree):
    """Some all-integer-literal sub-expression has an exact value of 2**63 or more (e.g. 30**19): Python evaluates it as an
    unbounded integer, which is not a machine number - arithmetic of such an object with arrays is outside the property's
    'numbers' (counted, not judged)."""
    import ast as _ast

    def exact(n):
        if isinstance(n, _ast.Constant) and isinstance(n.value, int) and not isinstance(n.value, bool):
            return n.value
        if isinstance(n, _ast.UnaryOp) and isinstance(n.op, (_ast.USub, _ast.UAdd)):
            v = exact(n.operand)
            return None if v is None else (-v if isinstance(n.op, _ast.USub) else v)
        if isinstance(n, _ast.BinOp) and isinstance(n.op, (_ast.Add, _ast.Sub, _ast.Mult, _ast.Pow)):
            a, b = exact(n.left), exact(n.right)
            if a is None or b is None:
                return None
            if isinstance(n.op, _ast.Pow):
                if b < 0 or b > 400 or abs(a) > 10**6:
                    return None
                return a**b
            return a + b if isinstance(n.op, _ast.Add) else (a - b if isinstance(n.op, _ast.Sub) else a * b)
        return None

    for n in _ast.walk(tree):
        v = exact(n)
        if v is not None and abs(v) >= 2**63:
            return True
    return False


# values of the named quantities: zeros, ordinary magnitudes, and tiny / huge ones (a compartment holding 1e-9 people is as
# real a number as one holding 1e6)
VALUES = [0.0, 0.0, 0.0, 1.0, 2.5, 0.3, 7.0, 1.0, 2.5, 0.3, 7.0, 1e-9, 3e-12, 4e-9, 1e6]


def gen_expr(rng, names, depth):
    if depth == 0 or rng.random() < 0.25:
        u = rng.random()
        if u < 0.55:
            return names[int(rng.integers(0, len(names)))]
        if u < 0.65:
            return "0"
        if u < 0.7:
            return "pi"
        return "%.6g" % float(rng.choice([0.5, 1, 2, 3, 0.25, 10, 1e-3, 7.5]))
    u = rng.random()
    a = gen_expr(rng, names, depth - 1)
    b = gen_expr(rng, names, depth - 1)
    if u < 0.5:
        op = ["+", "-", "*", "/", "/", "**", "//", "%"][int(rng.integers(0, 8))]
        if op == "**":
            return "(%s)**%s" % (a, ["2", "0.5", "3", "1", "2", "0.5", "-1", "-2", "(-3)", "19"][int(rng.integers(0, 10))])  # incl. negative and large integer exponents (integer ** integer must behave like real arithmetic too; results stay below 2**64 so that integer literals remain machine numbers)
        return "(%s)%s(%s)" % (a, op, b)
    if u < 0.6:
        return "-(%s)" % a
    if u < 0.66:
        return "(%s)%s(%s)" % (a, ["<", "<=", ">", ">=", "==", "!="][int(rng.integers(0, 6))], b)
    if u < 0.7:  # a chained comparison (Python: the conjunction of the pairwise comparisons)
        ops = ["<", "<=", ">", ">=", "==", "!="]
        return "((%s)%s(%s)%s(%s))" % (a, ops[int(rng.integers(0, 6))], b, ops[int(rng.integers(0, 6))], gen_expr(rng, names, depth - 1))
    f = ["max", "min", "exp", "sqrt", "floor", "cos", "sin", "ln", "sdiv"][int(rng.integers(0, 9))]
    if f in ("max", "min"):
        if rng.random() < 0.1:
            return "%s(%s)" % (f, a)  # (the smallest / largest of one number is that number - elementwise for arrays)
        if rng.random() < 0.3:
            return "%s(%s,%s,%s)" % (f, a, b, gen_expr(rng, names, depth - 1))
        return "%s(%s,%s)" % (f, a, b)
    if f == "sdiv":
        return "sdiv(%s,%s)" % (a, b)
    if f == "exp":
        return "exp(-((%s)**2))" % a
    return "%s(%s)" % (f, a)


def free_names(src):
    tree = ast.parse(src.replace(":", "___"), mode="eval")
    names = set()
    calls = set()
    for n in ast.walk(tree):
        if isinstance(n, ast.Name):
            names.add(n.id)
    return names


# ---------------------------------------------------------------------------------------------
def contains_must_reject(src):
    """Oracle, derived from the property text, independent of the parser under test."""
    if "__" in src:
        return True
    from atomica.function_parser import supported_functions

    try:
        tree = ast.parse(src.replace(":", "___"), mode="eval")
    except SyntaxError:
        return True
    for n in ast.walk(tree):
        if type(n).__name__ in MUST_REJECT_NODES:
            return True
        if isinstance(n, ast.Call):
            if not isinstance(n.func, ast.Name) or n.func.id not in supported_functions:
                return True
    return False


def only_must_accept(src):
    from atomica.function_parser import supported_functions

    try:
        tree = ast.parse(src.replace(":", "___"), mode="eval")
    except SyntaxError:
        return False
    allowed_ops = (ast.Add, ast.Sub, ast.Mult, ast.Div, ast.Pow, ast.FloorDiv, ast.Mod, ast.UAdd, ast.USub, ast.Lt, ast.LtE, ast.Gt, ast.GtE, ast.Eq, ast.NotEq, ast.Load)
    for n in ast.walk(tree):
        if isinstance(n, (ast.Expression,)):
            continue
        if isinstance(n, (ast.operator, ast.unaryop, ast.cmpop, ast.expr_context)):
            if not isinstance(n, allowed_ops):
                return False
            continue
        if isinstance(n, ast.Constant):
            if isinstance(n.value, bool) or not isinstance(n.value, (int, float)):
                return False
            continue
        if isinstance(n, ast.Call):
            if not isinstance(n.func, ast.Name) or n.func.id not in supported_functions or n.keywords:
                return False
            continue
        if isinstance(n, ast.Compare):
            if len(n.ops) != 1:
                return False
            continue
        if type(n).__name__ not in MUST_ACCEPT_NODES:
            return False
    return True


def try_parse(src):
    from atomica.function_parser import parse_function

    try:
        fcn, deps = parse_function(src)
        return True, fcn, deps, None
    except BaseException as e:  # noqa
        if isinstance(e, (KeyboardInterrupt, SystemExit)):
            raise
        return False, None, None, e


def evaluate(fcn, deps, mode):
    env = {}
    for i, d in enumerate(deps):
        if d in ("rand", "randn"):
            continue
        env[d] = (2.0 + i) if mode == "scalar" else np.array([0.0, 1.0, 2.0 + i])
    try:
        with np.errstate(all="ignore"):
            return fcn(**env)
    except BaseException as e:  # noqa
        if isinstance(e, (KeyboardInterrupt, SystemExit)):
            raise
        return e


def run_case(case):
    R = ref.Recs()
    kind = case["kind"]
    scratch = tempfile.mkdtemp(prefix="av_c19_")
    cwd = os.getcwd()
    os.chdir(scratch)
    samples = []
    try:
        if kind == "enum":
            n_acc = n_rej = 0
            for must, label, s, allowed_only, depth in enum_strings(case["tier"], case["lo"], case["hi"]):
                oracle_reject = contains_must_reject(s)
                if must == "reject" and not oracle_reject:
                    # the oracle itself must agree that a reject template is a must-reject (harness sanity)
                    raise AssertionError("oracle does not classify reject template as must-reject: %r" % s)
                (accepted, fcn, deps, exc), events = audit(lambda: try_parse(s))
                if events:
                    R.bad("no-side-effects-while-parsing", "C19:side-effect-while-parsing[%s]" % events[0][0], {"string": s, "events": events[:5]})
                if oracle_reject:
                    R.count("must_reject_strings")
                    if accepted:
                        n_acc += 1
                        R.bad("must-reject", "C19:accepts[%s]" % label, {"string": s, "depth": depth})
                        # demonstrate the consequence: evaluate under the audit hook
                        (_, ev2) = audit(lambda: (evaluate(fcn, deps, "array"), evaluate(fcn, deps, "scalar")))
                        leftovers = os.listdir(scratch)
                        if ev2 or leftovers:
                            R.bad("no-side-effects", "C19:side-effect-on-evaluation[%s]" % label, {"string": s, "events": ev2[:5], "files_created": leftovers})
                            for f in leftovers:
                                try:
                                    os.remove(os.path.join(scratch, f))
                                except OSError:
                                    pass
                    else:
                        n_rej += 1
                        R.ok("must-reject")
                    continue
                if must == "accept" and only_must_accept(s):
                    R.count("must_accept_strings")
                    if not accepted:
                        R.bad("must-accept", "C19:rejects[%s]" % label, {"string": s, "error": repr(exc)[:300]})
                        continue
                    R.ok("must-accept")
                    n_acc += 1
                else:
                    R.count("dont_care_strings")
                if accepted:
                    # accepted strings (must-accept or don't-care) are evaluated under the audit hook
                    (_, ev2) = audit(lambda: (evaluate(fcn, deps, "array"), evaluate(fcn, deps, "scalar")))
                    R.count("audit_hook_active_evaluations", 2)
                    leftovers = os.listdir(scratch)
                    if ev2 or leftovers:
                        R.bad("no-side-effects", "C19:side-effect-on-evaluation[%s]" % label, {"string": s, "events": ev2[:5], "files_created": leftovers})
                    else:
                        R.ok("no-side-effects")
                if len(samples) < 3:
                    samples.append(s)
            return {"records": R.records(), "stats": R.stats, "nontrivial": True, "sample": {"kind": "enum", "range": [case["lo"], case["hi"]], "strings": samples}}

        if kind == "random":
            rng = np.random.default_rng(case["seed"])
            names = ["x", "y", "z", "a:b", "w:flow", "t", "dt"]  # (time and step size are quantities a function may depend on like any other)
            for i in range(case["n"] + len(PROBES)):
                # (a few hand-written shapes that the random generator reaches only in the thorough tier come first)
                s = PROBES[i] if i < len(PROBES) else gen_expr(rng, names, int(rng.integers(1, 5)))
                (accepted, fcn, deps, exc), events = audit(lambda: try_parse(s))
                if not accepted:
                    R.bad("must-accept", "C19:rejects[random-arithmetic]", {"string": s, "error": repr(exc)[:300]})
                    continue
                # dependencies
                exp_deps = {n for n in free_names(s)}
                from atomica.function_parser import supported_functions

                exp_deps -= set(supported_functions.keys())
                if set(deps) != exp_deps:
                    R.bad("dependency-set", "C19:dependency-set-wrong", {"string": s, "reported": sorted(set(deps)), "expected": sorted(exp_deps)})
                else:
                    R.ok("dependency-set")
                tree = ast.parse(s.replace(":", "___"), mode="eval")
                if has_big_integer_constant(tree):
                    R.count("expressions_with_integer_constants_beyond_machine_integers")
                    continue
                for mode in ("scalar", "array", "zeros"):
                    env = {}
                    for d in sorted(exp_deps):
                        if mode == "scalar":
                            env[d] = float(rng.choice(VALUES))
                        elif mode == "zeros":
                            env[d] = np.zeros(3) if rng.random() < 0.7 else np.array([0.0, 1.0, 0.0])
                        else:
                            env[d] = rng.choice(VALUES, size=3)
                    info = {}
                    try:
                        exp = _feval(tree, env, strict=True, info=info)
                    except DontCare:
                        R.count("evaluations_outside_real_arithmetic")
                        continue
                    if info.get("nonfinite"):
                        # some intermediate value overflows double precision (e.g. (1/3e-12)**64): Python floats raise where arrays give
                        # inf; there is no finite real-arithmetic value to compare with
                        R.count("evaluations_outside_double_range")
                        continue
                    if info.get("chain") and mode != "scalar":
                        # a chained comparison is an implicit `and`: like `and` / `or` / `if-else` it has no elementwise meaning in Python
                        R.count("chained_comparisons_on_arrays_not_judged")
                        continue
                    if info.get("chain"):
                        R.count("chained_comparisons_evaluated")
                    if info.get("fragile"):
                        # within rounding distance of (but not at) a discontinuity of floor, //, % or a comparison: two correct
                        # floating-point evaluations may differ by a whole jump
                        R.count("evaluations_within_rounding_distance_of_a_discontinuity")
                        continue
                    (got, ev2) = audit(lambda: _call(fcn, env))
                    R.count("audit_hook_active_evaluations")
                    R.count("evaluated_expressions")
                    if ev2:
                        R.bad("no-side-effects", "C19:side-effect-on-evaluation[random-arithmetic]", {"string": s, "events": ev2[:5]})
                    if isinstance(got, BaseException):
                        R.bad("value=real-arithmetic", "C19:evaluation-raises[%s]" % type(got).__name__, {"string": s, "env": env, "error": repr(got)[:300]})
                        continue
                    g = np.asarray(got, dtype=float)
                    e = np.asarray(exp, dtype=float)
                    try:
                        g, e = np.broadcast_arrays(g, e)
                    except ValueError:
                        R.bad("value=real-arithmetic", "C19:shape-mismatch", {"string": s, "env": env})
                        continue
                    with np.errstate(all="ignore"):
                        # absolute error of a floating-point evaluation is proportional to the largest intermediate value (cancellation)
                        ok = np.isclose(g, e, rtol=1e-12, atol=max(1e-300, 1e-12 * info.get("scale", 0.0)), equal_nan=False) | ((g == e)) | (np.isnan(e))
                    if not np.all(ok):
                        regime = "zero-numerator" if ("/" in s or "sdiv" in s) and mode != "array" else mode
                        R.bad("value=real-arithmetic", "C19:value-differs[%s]" % mode, {"string": s, "env": env, "got": g.tolist(), "expected": e.tolist()})
                    else:
                        R.ok("value=real-arithmetic")
                        if "/" in s or "sdiv" in s:
                            R.count("evaluations_with_division")
                if len(samples) < 3:
                    samples.append(s)
            return {"records": R.records(), "stats": R.stats, "nontrivial": R.stats.get("evaluated_expressions", 0) > 0, "sample": {"kind": "random", "strings": samples}}

        if kind == "nodes":
            # every expression node class of this interpreter is classified and has a template
            classes = sorted(c.__name__ for c in ast.expr.__subclasses__() if c.__name__ not in ("Num", "Str", "Bytes", "NameConstant", "Ellipsis"))
            unknown = [c for c in classes if c not in MUST_REJECT_NODES | MUST_ACCEPT_NODES | DONT_CARE_NODES]
            covered = set()
            for _, s in REJECT_TEMPLATES + ACCEPT_TEMPLATES:
                for src in (s, s.replace(":", "___")):
                    try:
                        for n in ast.walk(ast.parse(src, mode="eval")):
                            covered.add(type(n).__name__)
                    except SyntaxError:
                        pass
            missing = [c for c in classes if c in MUST_REJECT_NODES | MUST_ACCEPT_NODES and c not in covered]
            R.count("expr_node_classes", len(classes))
            if unknown or missing:
                R.inc("node-classes-classified")
                return {"records": R.records(), "stats": R.stats, "nontrivial": False, "inconclusive": "unclassified node classes %s / no template %s" % (unknown, missing)}
            R.ok("node-classes-classified", len(classes))
            # '__' and the length guard
            for s in ["x" * 1800, "1+" * 900 + "1"]:
                acc, _, _, _ = try_parse(s)
                R.count("must_reject_strings")
                if acc:
                    R.bad("length-guard", "C19:accepts[overlong]", {"length": len(s)})
                else:
                    R.ok("length-guard")
            return {"records": R.records(), "stats": R.stats, "nontrivial": True, "sample": {"kind": "nodes", "classes": classes}}

        if kind == "plotstrings":
            from atomica.utils import evaluate_plot_string

            good = ["{'a':['x','y:flow']}", "['x','y']", "{'a':['b'],'c':['d','e']}", "plain_name", "x:flow"]
            bad = ["[x.real]", "[__import__('os')]", "{'a':open('pwned4.txt','w')}", "[1+1]", "[(lambda: 1)()]", "[y for y in 'ab']", "{'a':[x]}", "[f'{1}']", "['a'].append('b') or ['c']"]
            for s in good:
                out, ev = audit(lambda: _safe(evaluate_plot_string, s))
                if isinstance(out, BaseException) or ev:
                    R.bad("plot-string-literal", "C19:plot-string-rejected-or-side-effect", {"string": s, "out": repr(out), "events": ev})
                else:
                    R.ok("plot-string-literal")
                    R.count("must_accept_strings")
            for s in bad:
                out, ev = audit(lambda: _safe(evaluate_plot_string, s))
                R.count("must_reject_strings")
                if not isinstance(out, BaseException) or ev or os.listdir(scratch):
                    R.bad("plot-string-literal-only", "C19:plot-string-evaluates-non-literal", {"string": s, "out": repr(out)[:200], "events": ev})
                else:
                    R.ok("plot-string-literal-only")
            return {"records": R.records(), "stats": R.stats, "nontrivial": True, "sample": {"kind": "plotstrings", "strings": good[:2] + bad[:3]}}
    finally:
        os.chdir(cwd)
        import shutil

        shutil.rmtree(scratch, ignore_errors=True)


def _call(fcn, env):
    try:
        with np.errstate(all="ignore"):
            return fcn(**{k.replace(":", "___"): v for k, v in env.items()})
    except BaseException as e:  # noqa
        if isinstance(e, (KeyboardInterrupt, SystemExit)):
            raise
        return e


def _safe(f, *a):
    try:
        return f(*a)
    except BaseException as e:  # noqa
        if isinstance(e, (KeyboardInterrupt, SystemExit)):
            raise
        return e

"""C13 - active programs set targeted parameters exactly, and reports match the run."""

import numpy as np

from av import attach, gen, ref, simcase
from av.props import simprop

MANIFEST_ENTRY = {
    "category": "exploration",
    "technique": "history recorder on the integrator's program calls (coverage dict and outcomes actually used at each step) checked offline against the finished Result's reported coverage / capacity / eligible / number / spending and against an independent recomputation of every targeted parameter value; generated, library and shipped (corpus) program books under perturbation",
    "text": "A harness-side wrapper on ProgramSet.get_outcomes (tagged with the step index from Model.update_pars) records the coverage each step of the real run used. After the run: recorded coverage == Result.get_coverage('fraction') at that step; capacity, eligible, number and get_alloc are mutually consistent with it and with an independent stepped interpolation of the spending / unit cost / constraint series and overwrites; every targeted (parameter, population) at every active step equals clip(conv(ProgramSet.get_outcomes(reported coverage))) with conv = x source size / dt for number parameters and / dt for probability/rate; outside [start, stop] and for untargeted parameters/populations the value equals the run without programs wherever the model state agrees (before the start) and never equals a program outcome by construction of the recomputation in C06. Every 8th case runs a shipped model with one of its program books at other step sizes, hostile calibration factors, budgets scaled by 0 ... 1000 and start years on and off the grid. After the run the caller's program set and instructions are edited and every report of the finished result is queried again: it must not move. Half of the generated stop years are exactly simulation times; 15% of the generated programs list a sink or junction among their target compartments.",
    "note": "Workloads deliberately include programs starting at the first time point with a number-unit target fed by an initialised junction (start-up ordering). Derivative parameters and aggregated parameters are not targetable in the generated workloads.",
}

META = {
    "level": "exploration",
    "rule": "cases = random ModelSpecs with 60% of eligible parameters targetable, 1-5 generated programs (shared targets, several populations/compartments, one-off and continuous, constraints, saturation, explicit interactions) and generated instructions (start on/off grid or at t0, optional stop, spending/capacity/coverage overwrite series), plus library models with their program books; non-trivial = some program active for >= 2 steps with coverage strictly between 0 and 1; distinct = spec fingerprints",
    "deciding_counters": ["active_steps_checked", "targeted_values_checked", "coverage_steps_matched"],
    "assumptions": ["ill-posed junction runs and non-finite function values are outside the domain (counted)"],
    "case_timeout": 300,
}

LIB = ["sir", "tb", "hypertension", "hypertension_dyn", "udt", "udt_dyn", "usdt", "hiv", "hiv_dyn", "diabetes", "cervicalcancer", "tb_simple", "tb_simple_dyn", "combined"]
N = {"quick": 400, "thorough": 12000}


def count(tier, seed):
    return N[tier] + len(LIB)


def make_case(tier, seed, index):
    if index < len(LIB):
        return {"kind": "library", "name": LIB[index], "start_offset": [0.0, 2.0, 3.3][(seed + index) % 3]}
    rng = gen.rng_for(seed, 13, index)
    if index % simprop.CORPUS_EVERY == simprop.CORPUS_EVERY - 1:
        # library / fixture model with one of its program books: other step sizes, hostile calibration factors, scaled
        # budgets, start years on and off the grid
        from av import corpus

        for _ in range(50):
            case = corpus.make_case(rng, max_steps=30 if tier == "quick" else 60)
            pbs_ = ([x for x in corpus.PAIRS if x[0] == case["framework"] and x[1] == case["databook"]] or [(None, None, [])])[0][2]
            if pbs_:
                case["progbook"] = pbs_[int(rng.integers(0, len(pbs_)))]
                return case
    pf = {"p_targetable": 0.6, "p_junction_init": 0.6, "n_junctions": (0, 2)}
    if tier == "thorough":
        pf["steps"] = (3, 50)
    spec = gen.gen_spec(rng, pf)
    for _ in range(5):
        ps = gen.gen_progspec(rng, spec)
        if ps is not None:
            break
        spec = gen.gen_spec(rng, pf)
    return {"kind": "generated", "spec": spec, "progspec": ps}


def step_interp(ts, t):
    t = np.atleast_1d(np.asarray(t, dtype=float))
    if not ts.t:
        return np.full(t.shape, ts.assumption if ts.assumption is not None else np.nan)
    tt = np.asarray(ts.t, dtype=float)
    vv = np.asarray(ts.vals, dtype=float)
    idx = np.searchsorted(tt, t, side="right") - 1
    return np.where(idx < 0, vv[0], vv[np.clip(idx, 0, len(vv) - 1)])


def check_run(R, P, result, history, pset, instr):
    view = ref.View(result)
    t = view.t
    dt = view.dt
    T = view.T
    active = (t >= instr.start_year) & (t <= instr.stop_year)
    progs = result.model.progset.programs
    cov = result.get_coverage("fraction")
    elig = result.get_coverage("eligible")
    cap = result.get_coverage("capacity")
    num = result.get_coverage("number")
    alloc = result.get_alloc()

    # --- 1. the history of the run: exactly the active steps called get_outcomes
    hsteps = sorted(history.keys())
    # index 0 is evaluated twice (before and after the start-up flush): the later call is the one in force
    exp_steps = [int(i) for i in np.nonzero(active)[0]]
    if hsteps != exp_steps:
        R.bad("programs-active-exactly-in-window", "C13:active-steps-differ-from-[start,stop]", {"called_at": hsteps[:10], "expected": exp_steps[:10], "start": instr.start_year, "stop": instr.stop_year, "t": t[:6].tolist()})
    else:
        R.ok("programs-active-exactly-in-window")
    nontrivial_steps = 0
    # --- 2. recorded coverage == reported coverage; reports are mutually consistent
    for ti in hsteps:
        rec = history[ti]
        R.count("active_steps_checked")
        for k in progs:
            used = float(np.ravel(rec["coverage"][k])[0])
            rep = float(cov[k][ti])
            if not (abs(used - rep) <= 1e-12 * max(1.0, abs(rep))):
                first = "t0" if ti == 0 else "t>0"
                R.bad("reported-coverage=used-coverage", "C13:reported-coverage-differs-from-run[%s]" % first, {"program": k, "index": ti, "used_in_run": used, "reported": rep, "eligible_reported": float(elig[k][ti]) if k in elig else None})
            else:
                R.ok("reported-coverage=used-coverage")
                R.count("coverage_steps_matched")
                if 0 < used < 1:
                    nontrivial_steps += 1
    for k, prog in progs.items():
        one_off = prog.is_one_off
        # spending: overwrite (stepped) else program book (stepped)
        exp_alloc = step_interp(instr.alloc[k], t) if k in instr.alloc else step_interp(prog.spend_data, t)
        if not np.allclose(alloc[k], exp_alloc, rtol=1e-12, atol=0, equal_nan=True):
            R.bad("reported-spending", "C13:get_alloc-differs-from-series", {"program": k, "got": np.asarray(alloc[k])[:5].tolist(), "expected": exp_alloc[:5].tolist()})
        else:
            R.ok("reported-spending")
        # capacity (people/year) from that step's spending and unit cost
        if k in instr.capacity:
            exp_cap = step_interp(instr.capacity[k], t)
        else:
            # per-step capacity: spending (per step for one-off programs) / unit cost, capped by the constraint, which the
            # documentation converts between 'people/year' and 'people' with the time step by its units alone
            cap_step = exp_alloc * (dt if one_off else 1.0) / step_interp(prog.unit_cost, t)
            if prog.capacity_constraint.has_data:
                cc = step_interp(prog.capacity_constraint, t) * (dt if "/year" in prog.capacity_constraint.units else 1.0)
                cap_step = np.minimum(cap_step, cc)
            exp_cap = cap_step / (dt if one_off else 1.0)  # reported in people/year for one-off programs
        if not np.allclose(cap[k], exp_cap, rtol=1e-9, atol=0, equal_nan=True):
            R.bad("reported-capacity", "C13:reported-capacity-differs[%s]" % ("one-off" if one_off else "continuous"), {"program": k, "got": np.asarray(cap[k])[:5].tolist(), "expected": exp_cap[:5].tolist(), "dt": dt})
        else:
            R.ok("reported-capacity")
        # eligible = sum of targeted compartments
        e = np.zeros(T)
        for c in view.comps:
            if c["pop"] in prog.target_pops and c["name"] in prog.target_comps:
                e = e + c["vals"]
        if k in elig and not np.allclose(elig[k], e, rtol=1e-12, atol=1e-12, equal_nan=True):
            R.bad("reported-eligible", "C13:reported-eligible-differs", {"program": k, "got": np.asarray(elig[k])[:5].tolist(), "expected": e[:5].tolist()})
        else:
            R.ok("reported-eligible")
        # number = fraction * eligible (per year for one-off)
        exp_num = np.asarray(cov[k]) * e / (dt if one_off else 1.0)
        if not np.allclose(num[k], exp_num, rtol=1e-9, atol=1e-12, equal_nan=True):
            R.bad("reported-number", "C13:reported-number-differs", {"program": k})
        else:
            R.ok("reported-number")
        # fraction from capacity and eligible unless overwritten
        if k not in instr.coverage:
            capstep = exp_cap * (dt if one_off else 1.0)
            with np.errstate(all="ignore"):
                if prog.saturation.has_data:
                    s = step_interp(prog.saturation, t)
                    pc = np.where(e != 0, capstep / np.where(e != 0, e, 1.0), np.inf)
                    expf = np.minimum(2 * s / (1 + np.exp(-2 * pc / s)) - s, 1.0)
                else:
                    expf = np.where(e > capstep, capstep / np.where(e > 0, e, 1.0), 1.0)
            if not np.allclose(cov[k], expf, rtol=1e-9, atol=1e-15, equal_nan=True):
                j = int(np.argmax(~np.isclose(cov[k], expf, rtol=1e-9, atol=1e-15, equal_nan=True)))
                R.bad("reported-fraction", "C13:reported-fraction-differs", {"program": k, "index": j, "got": float(cov[k][j]), "expected": float(expf[j]), "capacity_step": float(capstep[j]), "eligible": float(e[j])})
            else:
                R.ok("reported-fraction")
    # --- 3. targeted parameter values
    covouts = result.model.progset.covouts
    targeted = set(covouts.keys())
    for ti in hsteps:
        outcomes = pset.get_outcomes({k: np.array([float(cov[k][ti])]) for k in progs})
        for (pname, pop), y in outcomes.items():
            par = view.pars.get((pop, pname))
            if par is None:
                continue
            if getattr(par, "derivative", False) or par.pop_aggregation:
                continue
            R.count("targeted_values_checked")
            v = float(y)
            units = par.units
            if units == "number":
                links = view.par_links(par)
                src = sum(float(l["src"]["vals"][ti]) for l in links)
                v = v * src / dt
            elif units in ("probability", "rate"):
                v = v / dt
            if par.limits is not None:
                v = min(max(v, par.limits[0]), par.limits[1])
            got = float(par.vals[ti])
            if not (abs(got - v) <= 1e-9 * max(1.0, abs(v), abs(got))):
                first = "t0" if ti == 0 else "t>0"
                R.bad("targeted-parameter=program-outcome", "C13:targeted-parameter-differs[%s,%s]" % (units, first), {"par": pname, "pop": pop, "index": ti, "recorded": got, "expected": v, "outcome": float(y), "coverage": {k: float(cov[k][ti]) for k in progs}, "limits": par.limits})
            else:
                R.ok("targeted-parameter=program-outcome")
    return nontrivial_steps, view, targeted


def _reports(result):
    out = {}
    for k, v in result.get_alloc().items():
        out[("alloc", k)] = np.array(v, dtype=float, copy=True)
    for q in ("capacity", "eligible", "fraction", "number"):
        for k, v in result.get_coverage(q).items():
            out[(q, k)] = np.array(v, dtype=float, copy=True)
    return out


def check_reports_survive_later_edits(R, result, pset, instr):
    """The reports of a finished run describe that run: what the caller does to the program set and the instructions
    afterwards (the usual what-if workflow: edit, run again, compare both results) must not change them."""
    before = _reports(result)

    def scale(ts, f):
        ts.vals = [v * f for v in ts.vals]
        if ts.assumption is not None:
            ts.assumption = ts.assumption * f

    for i, prog in enumerate(pset.programs.values()):
        scale(prog.spend_data, 3.0)
        scale(prog.unit_cost, 0.25)
        if prog.capacity_constraint.has_data:
            scale(prog.capacity_constraint, 0.1)
        if i % 2 == 0 and len(prog.target_comps) > 1:
            prog.target_comps = list(prog.target_comps)[:-1]
        if i % 3 == 0 and len(prog.target_pops) > 1:
            prog.target_pops = list(prog.target_pops)[:-1]
    for k, ts in instr.alloc.items():
        scale(ts, 7.0)
    for k, ts in instr.capacity.items():
        scale(ts, 0.5)
    for k, ts in instr.coverage.items():
        scale(ts, 0.5)
    instr.start_year = instr.start_year + 1.0
    after = _reports(result)
    R.count("report_arrays_requeried_after_editing_the_callers_program_set", len(before))
    changed = sorted(k for k in before if k not in after or before[k].shape != after[k].shape or not np.array_equal(before[k], after[k], equal_nan=True))
    if changed:
        R.bad("reports-describe-the-run", "C13:report-follows-later-edits-of-the-callers-objects[%s]" % changed[0][0], {"changed": [list(k) for k in changed[:6]], "before": before[changed[0]][:4].tolist(), "after": after[changed[0]][:4].tolist() if changed[0] in after else None})
    else:
        R.ok("reports-describe-the-run")


def run_case(case):
    import atomica as at
    import atomica.model as M
    import atomica.programs as PR

    R = ref.Recs()
    history = {}
    cur = {"ti": None}

    def pre_pars(model):
        cur["ti"] = model._t_index

    def post_outcomes(tok, out, pset_, prop_coverage):
        if cur["ti"] is not None:
            history[int(cur["ti"])] = {"coverage": {k: np.array(v, copy=True) for k, v in prop_coverage.items()}, "outcomes": dict(out)}

    if case["kind"] == "library":
        name = case["name"]
        P = at.Project(framework=at.LIBRARY_PATH / ("%s_framework.xlsx" % name), databook=at.LIBRARY_PATH / ("%s_databook.xlsx" % name), do_run=False)
        pset = P.load_progbook(at.LIBRARY_PATH / ("%s_progbook.xlsx" % name))
        instr = at.ProgramInstructions(start_year=P.settings.sim_start + case["start_offset"])
        with attach.Attach() as A:
            h1 = A.wrap(M.Model, "update_pars", pre=pre_pars)
            h2 = A.wrap(PR.ProgramSet, "get_outcomes", post=post_outcomes)
            result = P.run_sim(P.parsets[0], progset=pset, progset_instructions=instr)
        sample = {"kind": "library", "name": name, "start": instr.start_year}
    elif case["kind"] == "corpus":
        from av import corpus

        P, pset, instr = corpus.build(case)
        R.count("corpus_cases")
        with attach.Attach() as A:
            h1 = A.wrap(M.Model, "update_pars", pre=pre_pars)
            h2 = A.wrap(PR.ProgramSet, "get_outcomes", post=post_outcomes)
            try:
                P, result, view0 = simcase.simulate(None, R, progset=pset, instructions=instr, project=P)
            except simcase.Excluded as e:
                return {"records": R.records(), "stats": R.stats, "nontrivial": False, "excluded": e.reason}
            except Exception as e:
                if type(e).__name__ == "BadInitialization":
                    return {"records": R.records(), "stats": R.stats, "nontrivial": False, "excluded": "perturbed databook cannot be initialised"}
                raise
        sample = dict(corpus.describe(case))
    else:
        spec, ps = case["spec"], case["progspec"]
        if ps is None:
            return {"records": [], "stats": {"no_targetable": 1}, "nontrivial": False}
        P = gen.build_project(spec)
        pset = gen.build_progset(ps, P.framework, P.data)
        instr = gen.build_instructions(ps)
        with attach.Attach() as A:
            h1 = A.wrap(M.Model, "update_pars", pre=pre_pars)
            h2 = A.wrap(PR.ProgramSet, "get_outcomes", post=post_outcomes)
            try:
                P, result, view0 = simcase.simulate(spec, R, progset=pset, instructions=instr, project=P)
            except simcase.Excluded as e:
                return {"records": R.records(), "stats": R.stats, "nontrivial": False, "excluded": e.reason}
        sample = dict(simprop.sample_of(spec))
        sample["programs"] = [{k: p[k] for k in ("name", "target_pops", "target_comps", "one_off")} for p in ps["programs"]]
        sample["instructions"] = ps["instructions"]
    if not (h1 and h2):
        R.inc("reported-coverage=used-coverage")
        return {"records": R.records(), "stats": R.stats, "nontrivial": False, "inconclusive": "hooks unavailable"}
    nt, view, targeted = check_run(R, P, result, history, pset, instr)
    check_reports_survive_later_edits(R, result, pset, instr)
    return {"records": R.records(), "stats": R.stats, "nontrivial": nt >= 2, "sample": sample}

"""setup_cmd: nothing is built or installed; verify the interpreter can import what the checks need."""
import os, sys

def main():
    repo = os.environ.get("ATOMICA_VERIF_REPO", "/repo")
    sys.path.insert(0, repo)
    import numpy, scipy, pandas, openpyxl, sciris, networkx  # noqa
    import atomica
    assert os.path.abspath(atomica.__file__).startswith(os.path.abspath(repo)), atomica.__file__
    root = os.path.dirname(os.path.dirname(os.path.abspath(__file__)))
    for d in ("evidence", "replays", ".work"):
        os.makedirs(os.path.join(root, d), exist_ok=True)
    print("setup ok: atomica %s from %s; numpy %s pandas %s" % (atomica.__version__, atomica.__file__, numpy.__version__, pandas.__version__))
    return 0

if __name__ == "__main__":
    sys.exit(main())

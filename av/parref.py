"""Independent recomputation of every parameter value of a finished run:
data x calibration -> function of same-step dependencies -> program outcome -> aggregation -> limits."""

import numpy as np

from av import feval


def interp_series(ts, t):
    """The documented interpolation: exact at entered years, linear between, constant outside, the
    constant assumption if no time data; NaN entries ignored; single point => constant."""
    t = np.atleast_1d(np.asarray(t, dtype=float))
    tt = [float(a) for a, b in zip(ts.t, ts.vals) if a is not None and b is not None and not (np.isnan(a) or np.isnan(b))]
    vv = [float(b) for a, b in zip(ts.t, ts.vals) if a is not None and b is not None and not (np.isnan(a) or np.isnan(b))]
    if not ts.t:
        if ts.assumption is None:
            return np.full(t.shape, np.nan)
        return np.full(t.shape, float(ts.assumption))
    if len(tt) == 1:
        return np.full(t.shape, vv[0])
    out = np.empty(t.shape)
    for i, x in enumerate(t):
        if x <= tt[0]:
            out[i] = vv[0]
        elif x >= tt[-1]:
            out[i] = vv[-1]
        else:
            k = int(np.searchsorted(tt, x, side="right")) - 1
            if tt[k] == x:
                out[i] = vv[k]
            else:
                w = (x - tt[k]) / (tt[k + 1] - tt[k])
                out[i] = vv[k] + w * (vv[k + 1] - vv[k])
    return out


class ParRef:
    def __init__(self, view, parset, progset=None, instructions=None):
        self.view = view
        self.parset = parset
        self.fw = view.fw
        self.t = view.t
        self.dt = view.dt
        self.T = view.T
        self.progset = progset
        self.instr = instructions
        self.pops = []
        for c in view.comps:
            if c["pop"] not in self.pops:
                self.pops.append(c["pop"])
        for (pop, name) in view.pars:
            if pop not in self.pops:
                self.pops.append(pop)
        self.poporder = [p.name for p in view.result.model.pops]
        self.comp = {(c["pop"], c["name"]): c for c in view.comps}
        self._charac_cache = {}
        self.program_vals = None
        if progset is not None and instructions is not None:
            self._program_values()

    # ------------------------------------------------------------------ characteristics
    def charac(self, pop, name, convention):
        """Characteristic values from the recorded compartments. convention 'reported': 0 where numerator < 1e-6;
        'live': numerator/denominator without the cut-off (0 when both are ~0, inf when only the denominator is 0)."""
        key = (pop, name, convention)
        if key in self._charac_cache:
            return self._charac_cache[key]
        row = self.fw.characs.loc[name]
        num = np.zeros(self.T)
        for inc in [x.strip() for x in row["components"].split(",")]:
            num = num + self.quantity(pop, inc, "numerator")
        den_name = row["denominator"]
        if den_name is None or (isinstance(den_name, float) and np.isnan(den_name)):
            out = num
        else:
            den = self.quantity(pop, den_name, convention)
            with np.errstate(all="ignore"):
                out = np.where(den > 0, num / np.where(den > 0, den, 1.0), np.where(num < 1e-6, 0.0, np.inf))
            if convention == "reported":
                out = np.where(num < 1e-6, 0.0, out)
        self._charac_cache[key] = out
        return out

    def quantity(self, pop, name, convention):
        if (pop, name) in self.comp:
            return self.comp[(pop, name)]["vals"]
        if name in self.fw.characs.index:
            return self.charac(pop, name, "live" if convention == "numerator" else convention)
        raise KeyError(name)

    # ------------------------------------------------------------------ dependencies of a function
    def dep_values(self, pop, dep, convention):
        name = dep.replace("___", ":")
        if name == "t":
            return self.t
        if name == "dt":
            return self.dt
        if (pop, name) in self.comp:
            return self.comp[(pop, name)]["vals"]
        if name in self.fw.characs.index:
            return self.charac(pop, name, convention)
        if (pop, name) in self.view.pars:
            return np.array(self.view.pars[(pop, name)].vals, dtype=float, copy=True)
        if ":" in name:
            # flow selectors, annualised
            links = [l for l in self.view.links if l["pop"] == pop]
            if name.endswith(":flow"):
                pn = name[: -len(":flow")]
                sel = [l for l in links if (l["par"] is not None and l["par"].name == pn) or (l["par"] is None and getattr(l["obj"], "name", None) == name)]  # the flush link of a timed parameter keeps the parameter's flow name
            else:
                toks = name.split(":")
                if len(toks) == 2:
                    toks.append("")
                src, dst, pn = toks
                sel = links
                allinks = self.view.links
                if src and dst:
                    sel = [l for l in allinks if l["src"]["key"] == (pop, src) and l["dst"]["name"] == dst]
                elif src:
                    sel = [l for l in allinks if l["src"]["key"] == (pop, src)]  # every outflow, transfers included
                elif dst:
                    sel = [l for l in allinks if l["dst"]["key"] == (pop, dst)]  # every inflow, transfers from other populations included
                if pn:
                    sel = [l for l in sel if l["par"] is not None and l["par"].name == pn]
            out = np.zeros(self.T)
            for l in sel:
                out = out + l["vals"] / self.dt
            return out
        raise KeyError(name)

    # ------------------------------------------------------------------ programs
    def _program_values(self):
        res = self.view.result
        cov = res.get_coverage("fraction")
        active = (self.t >= self.instr.start_year) & (self.t <= self.instr.stop_year)
        self.program_active = active
        vals = {}
        progs = res.model.progset.programs
        for ti in np.nonzero(active)[0]:
            out = res.model.progset.get_outcomes({k: np.array([float(cov[k][ti])]) for k in progs})
            for key, y in out.items():
                vals.setdefault(key, {})[int(ti)] = float(y)
        self.program_vals = vals

    # ------------------------------------------------------------------ one parameter
    def expected(self, pop, name):
        """Returns (expected array, alternative array or None, info) or None if the parameter is not judged."""
        par = self.view.pars[(pop, name)]
        info = {"source": []}
        if getattr(par, "derivative", False):
            return None
        row = self.fw.pars.loc[name] if name in self.fw.pars.index else None
        pp = self.parset.pars.get(name) if hasattr(self.parset.pars, "get") else (self.parset.pars[name] if name in self.parset.pars else None)
        scale = 1.0
        data = None
        skip = None
        if pp is not None and pop in pp.ts:
            scale = float(pp.meta_y_factor) * float(pp.y_factor[pop])
            if pp.ts[pop].has_data:
                data = interp_series(pp.ts[pop], self.t) * scale
            skip = pp.skip_function.get(pop) if hasattr(pp.skip_function, "get") else pp.skip_function[pop]
        exp = None if data is None else data.copy()
        alt = None
        fcn = None if row is None else row["function"]
        has_fcn = isinstance(fcn, str) and fcn.strip() != ""
        if has_fcn:
            agg = fcn.startswith(("SRC_POP_AVG", "TGT_POP_AVG", "SRC_POP_SUM", "TGT_POP_SUM"))
            if agg:
                fv = self.aggregation(pop, name, fcn, scale)
                fv_alt = None
                info["source"].append("aggregation")
            else:
                deps = sorted(feval.names(fcn) - {"max", "min", "exp", "floor", "pi", "cos", "sin", "sqrt", "ln", "sdiv"})
                if "rand" in deps or "randn" in deps:
                    return None
                tree = feval.parse(fcn)
                try:
                    env = {d: self.dep_values(pop, d, "reported") for d in deps}
                    fv = scale * np.asarray(feval.evaluate(tree, env, strict=False), dtype=float) * np.ones(self.T)
                    env2 = {d: self.dep_values(pop, d, "live") for d in deps}
                    fv_alt = scale * np.asarray(feval.evaluate(tree, env2, strict=False), dtype=float) * np.ones(self.T)
                except (KeyError, feval.DontCare):
                    return None
                info["source"].append("function")
                info["pow"] = "**" in fcn
                mags = [np.nanmax(np.abs(np.where(np.isfinite(v), v, 0.0))) if np.ndim(v) else abs(v) for d, v in env.items() if d not in ("t", "dt")]
                info["atol"] = 1e-13 * max([1.0] + [float(m) for m in mags])
            if skip is not None:
                inside = (self.t >= skip[0]) & (self.t <= skip[1])
                base = data if data is not None else np.full(self.T, np.nan)
                exp = np.where(inside, base, fv)
                alt = None if fv_alt is None else np.where(inside, base, fv_alt)
                info["source"].append("skip-window")
            else:
                exp, alt = fv, fv_alt
        if exp is None:
            exp = np.full(self.T, np.nan)
        # program overwrite
        if self.program_vals is not None and (name, pop) in self.program_vals and not par.pop_aggregation:
            exp = exp.copy()
            if alt is not None:
                alt = alt.copy()
            for ti, y in self.program_vals[(name, pop)].items():
                v = y
                if par.units == "number":
                    links = self.view.par_links(par)
                    v = v * sum(float(l["src"]["vals"][ti]) for l in links) / self.dt
                elif par.units in ("probability", "rate"):
                    v = v / self.dt
                exp[ti] = v
                if alt is not None:
                    alt[ti] = v
            info["source"].append("program")
        # limits
        lo, hi = -np.inf, np.inf
        if row is not None:
            if np.isfinite(row["minimum value"]):
                lo = float(row["minimum value"])
            if np.isfinite(row["maximum value"]):
                hi = float(row["maximum value"])
        if lo > -np.inf or hi < np.inf:
            with np.errstate(all="ignore"):
                binding = np.nansum((exp < lo) | (exp > hi))
            info["binding_steps"] = int(binding)
            exp = np.clip(exp, lo, hi)
            if alt is not None:
                alt = np.clip(alt, lo, hi)
        return exp, alt, info

    def aggregation(self, pop, name, fcn, scale_unused):
        """Documented weighted sum / average over populations, one value per population of this parameter."""
        special, rest = fcn.split("(", 1)
        args = [x.strip() for x in rest.rstrip().rstrip(")").split(",")]
        var = args[0]
        inter = args[1] if len(args) > 1 else None
        wvar = args[2] if len(args) > 2 else None
        model = self.view.result.model
        fwpars = self.fw.pars
        to_type = fwpars.at[name, "population type"]
        to_pops = [p.name for p in model.pops if p.type == to_type]
        # the aggregated variable's populations
        from_pops = [p.name for p in model.pops if self._has(p.name, var)]

        def values(p, v):
            if (p, v) in self.comp:
                return self.comp[(p, v)]["vals"]
            if v in self.fw.characs.index:
                return self.charac(p, v, "live")
            return np.array(self.view.pars[(p, v)].vals, dtype=float, copy=True)

        V = np.array([values(p, var) for p in from_pops])  # from x T
        if inter is None:
            W = np.ones((len(from_pops), len(to_pops), self.T))
        else:
            W = np.array(model.interactions[inter], dtype=float, copy=True)  # from x to x T as documented in the databook (rows 'from', columns 'to')
        if wvar is not None:
            wv = np.array([values(p, wvar) for p in from_pops])
        i = to_pops.index(pop)
        out = np.zeros(self.T)
        pp = self.parset.pars[name]
        sc_ = float(pp.meta_y_factor) * float(pp.y_factor[pop]) if pop in pp.y_factor else float(pp.meta_y_factor)
        for ti in range(self.T):
            if special.startswith("SRC"):
                w = W[:, i, ti].copy()  # weight of interaction from j to this population
            else:
                w = W[i, :, ti].copy()  # transposed: from this population to j
            if wvar is not None:
                w = w * wv[:, ti]
            if special.endswith("AVG"):
                n = w.sum()
                if n != 0:
                    w = w / n
            out[ti] = sc_ * float(np.dot(w, V[:, ti]))
        return out

    def _has(self, pop, var):
        return (pop, var) in self.comp or (pop, var) in self.view.pars or (var in self.fw.characs.index and self.fw.characs.at[var, "population type"] == [p.type for p in self.view.result.model.pops if p.name == pop][0])

"""
Reference computations over a finished Result (public surface: compartment / link / parameter arrays,
link end points, parameter units and timescales, framework flags).  Internals (`_vals` of timed
compartments and links) are used only where the property itself speaks about elapsed-time bins; when
they are absent the bin-level sub-claims are reported inconclusive and totals are still checked.
"""

import numpy as np

TOL = 1e-9


class Recs:
    """Collects verdict records, merging 'held' ones per sub-claim."""

    def __init__(self):
        self.held = {}
        self.inconclusive = {}
        self.violations = []
        self.stats = {}

    def ok(self, sub, n=1):
        self.held[sub] = self.held.get(sub, 0) + int(n)

    def inc(self, sub, n=1):
        self.inconclusive[sub] = self.inconclusive.get(sub, 0) + int(n)

    def bad(self, sub, mechanism, witness):
        if sum(1 for v in self.violations if v["mechanism"] == mechanism) < 3:
            self.violations.append({"sub": sub, "verdict": "violated", "mechanism": mechanism, "witness": witness})

    def count(self, key, n=1):
        self.stats[key] = self.stats.get(key, 0) + n

    def records(self):
        out = [{"sub": k, "verdict": "held", "mechanism": "", "n": v} for k, v in self.held.items()]
        out += [{"sub": k, "verdict": "inconclusive", "mechanism": "", "n": v} for k, v in self.inconclusive.items()]
        return out + self.violations


def _arr(x):
    return np.array(x, dtype=float, copy=True)


class View:
    """Structure and arrays of a Result, read once."""

    def __init__(self, result):
        m = result.model
        self.result = result
        self.t = _arr(m.t)
        self.dt = float(m.dt)
        self.T = len(self.t)
        fw = result.framework
        self.fw = fw
        cflags = fw.comps
        self.comps = []  # dicts
        self.links = []
        self.pars = {}
        cid = {}
        for pop in m.pops:
            for c in pop.comps:
                name = c.name
                kind = "ord"
                try:
                    row = cflags.loc[name]
                    if row["is source"] == "y":
                        kind = "src"
                    elif row["is sink"] == "y":
                        kind = "sink"
                    elif row["is junction"] == "y":
                        kind = "junc"
                    elif row["duration group"]:
                        kind = "timed"
                    group = row["duration group"] or None
                except Exception:
                    kind = {"SourceCompartment": "src", "SinkCompartment": "sink", "JunctionCompartment": "junc", "ResidualJunctionCompartment": "junc", "TimedCompartment": "timed"}.get(type(c).__name__, "ord")
                    group = None
                d = {"key": (pop.name, name), "pop": pop.name, "name": name, "kind": kind, "group": group, "vals": _arr(c.vals), "obj": c, "in": [], "out": []}
                bins = getattr(c, "_vals", None)
                d["bins"] = _arr(bins) if (kind == "timed" and bins is not None and np.ndim(bins) == 2) else None
                cid[id(c)] = d
                self.comps.append(d)
        for pop in m.pops:
            for p in pop.pars:
                self.pars[(pop.name, p.name)] = p
            for l in pop.links:
                src = cid[id(l.source)]
                dst = cid[id(l.dest)]
                par = l.parameter
                bins = getattr(l, "_vals", None)
                d = {
                    "key": (pop.name, src["key"], dst["key"], par.name if par is not None else None),
                    "pop": pop.name,
                    "src": src,
                    "dst": dst,
                    "par": par,
                    "vals": _arr(l.vals),
                    "bins": _arr(bins) if (bins is not None and np.ndim(bins) == 2) else None,
                    "timedlink": bins is not None and np.ndim(bins) == 2,
                    "obj": l,
                    "transfer": src["pop"] != dst["pop"],
                }
                d["flush"] = par is None and src["kind"] == "timed"
                d["residual"] = par is None and src["kind"] == "junc"
                src["out"].append(d)
                dst["in"].append(d)
                self.links.append(d)
        for c in self.comps:
            c["IN"] = np.sum([l["vals"] for l in c["in"]], axis=0) if c["in"] else np.zeros(self.T)
            c["OUT"] = np.sum([l["vals"] for l in c["out"]], axis=0) if c["out"] else np.zeros(self.T)
            c["residual_junction"] = c["kind"] == "junc" and any(l["residual"] for l in c["out"])

    def par_links(self, par):
        return [l for l in self.links if l["par"] is par]

    # ------------------------------------------------------------------------------------------
    def ill_posed_junctions(self):
        """Plain junctions that receive people in a step where their proportions sum to <= 0 (domain
        restriction of C01/C04): returns list of (comp, first index)."""
        out = []
        for c in self.comps:
            if c["kind"] != "junc" or c["residual_junction"] or not c["out"]:
                continue
            psum = np.sum([np.maximum(0.0, np.nan_to_num(_arr(l["par"].vals), nan=0.0)) for l in c["out"] if l["par"] is not None], axis=0)  # negative proportion = no flow
            recv = np.nan_to_num(c["IN"], nan=1.0) > 0
            recv[0] = recv[0] or False
            bad = (psum <= 0) & recv
            if bad[: self.T - 0].any():
                out.append((c, int(np.argmax(bad))))
        return out


def nonfinite_inputs(view):
    """Parameters whose recorded value is NaN/inf at some index: 'given finite inputs' is then not met."""
    bad = []
    for k, p in view.pars.items():
        v = np.asarray(p.vals, dtype=float)
        if not np.all(np.isfinite(v)):
            bad.append(k)
    return bad


# ----------------------------------------------------------------------------------------------
# C01
# ----------------------------------------------------------------------------------------------


def check_conservation(view, R, prefix="C01"):
    T = view.T
    for c in view.comps:
        x, IN, OUT = c["vals"], c["IN"], c["OUT"]
        kind = c["kind"]
        if kind == "src":
            if c["in"] and np.any(c["IN"] != 0):
                R.bad("source-has-no-inflow", "%s:source-inflow" % prefix, {"comp": c["key"]})
            else:
                R.ok("source-has-no-inflow")
            continue
        if kind == "junc":
            # empty at every recorded index, in = out each step
            if np.any(x != 0):
                i = int(np.argmax(x != 0))
                R.bad("junction-empty", "%s:junction-not-empty" % prefix, {"comp": c["key"], "index": i, "value": float(x[i])})
            else:
                R.ok("junction-empty", T)
            scale = np.maximum(1.0, np.maximum(np.abs(IN), np.abs(OUT)))
            err = np.abs(IN - OUT) / scale
            if np.any(~(err <= TOL)):
                i = int(np.argmax(~(err <= TOL)))
                R.bad("junction-in=out", "%s:junction-in!=out[%s]" % (prefix, "residual" if c["residual_junction"] else "plain"), {"comp": c["key"], "index": i, "in": float(IN[i]), "out": float(OUT[i]), "links_out": {str(l["key"]): float(l["vals"][i]) for l in c["out"]}})
            else:
                R.ok("junction-in=out", T)
                if np.any(IN > 0):
                    R.count("junction_steps_with_inflow", int(np.sum(IN > 0)))
            continue
        if kind == "sink" and c["out"] and np.any(OUT != 0):
            R.bad("sink-has-no-outflow", "%s:sink-outflow" % prefix, {"comp": c["key"]})
        if T < 2:
            continue
        pred = x[:-1] + IN[:-1] - OUT[:-1]
        scale = np.maximum.reduce([np.ones(T - 1), np.abs(x[:-1]), np.abs(x[1:]), np.abs(IN[:-1]), np.abs(OUT[:-1])])
        err = np.abs(x[1:] - pred) / scale
        ok = err <= TOL
        if not np.all(ok):
            i = int(np.argmax(~ok))
            feats = sorted({"transfer" if l["transfer"] else ("timedlink" if l["timedlink"] else ("flush" if l["flush"] else ("junction" if (l["src"]["kind"] == "junc" or l["dst"]["kind"] == "junc") else "plain"))) for l in c["in"] + c["out"]})
            R.bad("stock-balance", "%s:balance[%s]" % (prefix, kind), {"comp": c["key"], "index": i, "t": float(view.t[i]), "x[t]": float(x[i]), "x[t+1]": float(x[i + 1]), "in": float(IN[i]), "out": float(OUT[i]), "predicted": float(pred[i]), "rel_err": float(err[i]), "attached": feats, "inflows": {str(l["key"]): float(l["vals"][i]) for l in c["in"]}, "outflows": {str(l["key"]): float(l["vals"][i]) for l in c["out"]}})
        else:
            R.ok("stock-balance", T - 1)
            R.count("balance_steps[%s]" % kind, T - 1)
            if np.any(IN[:-1] > 0) or np.any(OUT[:-1] > 0):
                R.count("balance_steps_with_flow", int(np.sum((IN[:-1] > 0) | (OUT[:-1] > 0))))
    # global: total over non-source compartments changes only by source outflow
    if T >= 2 and any(c["kind"] != "src" for c in view.comps):
        tot = np.sum([c["vals"] for c in view.comps if c["kind"] != "src"], axis=0)
        births = np.sum([c["OUT"] for c in view.comps if c["kind"] == "src"], axis=0) if any(c["kind"] == "src" for c in view.comps) else np.zeros(T)
        gross = np.sum([np.abs(l["vals"]) for l in view.links], axis=0) if view.links else np.zeros(T)
        d = tot[1:] - tot[:-1] - births[:-1]
        scale = np.maximum.reduce([np.ones(T - 1), np.abs(tot[:-1]), np.abs(tot[1:]), gross[:-1]])
        err = np.abs(d) / scale
        if np.any(~(err <= TOL)):
            i = int(np.argmax(~(err <= TOL)))
            R.bad("global-total", "%s:total-changes-without-births" % prefix, {"index": i, "total[t]": float(tot[i]), "total[t+1]": float(tot[i + 1]), "births": float(births[i])})
        else:
            R.ok("global-total", T - 1)


# ----------------------------------------------------------------------------------------------
# C02
# ----------------------------------------------------------------------------------------------


def check_nonneg_finite(view, R, prefix="C02"):
    for c in view.comps:
        x = c["vals"]
        if not np.all(np.isfinite(x)):
            i = int(np.argmax(~np.isfinite(x)))
            R.bad("stocks-finite", "%s:nonfinite-stock[%s]" % (prefix, c["kind"]), {"comp": c["key"], "index": i, "value": repr(x[i])})
        elif np.any(x < 0):
            i = int(np.argmax(x < 0))
            R.bad("stocks-nonnegative", "%s:negative-stock[%s]" % (prefix, c["kind"]), {"comp": c["key"], "index": i, "value": float(x[i])})
        else:
            R.ok("stocks-finite-nonnegative", len(x))
        if c["bins"] is not None:
            b = c["bins"]
            if not np.all(np.isfinite(b)) or np.any(b < 0):
                R.bad("bins-finite-nonnegative", "%s:bad-bin[timed]" % prefix, {"comp": c["key"]})
            else:
                R.ok("bins-finite-nonnegative", b.size)
    for l in view.links:
        v = l["vals"]
        srckind = l["src"]["kind"]
        tag = "junction" if srckind == "junc" else ("flush" if l["flush"] else ("timedlink" if l["timedlink"] else ("source" if srckind == "src" else "plain")))
        if not np.all(np.isfinite(v)):
            i = int(np.argmax(~np.isfinite(v)))
            par = l["par"]
            R.bad("flows-finite", "%s:nonfinite-flow[%s,%s]" % (prefix, tag, par.units if par is not None else "-"), {"link": l["key"], "index": i, "value": repr(v[i]), "source_size": float(l["src"]["vals"][i]), "par_value": float(par.vals[i]) if par is not None else None})
        elif np.any(v < 0):
            i = int(np.argmax(v < 0))
            par = l["par"]
            R.bad("flows-nonnegative", "%s:negative-flow[%s]" % (prefix, tag), {"link": l["key"], "index": i, "value": float(v[i]), "par_value": float(par.vals[i]) if par is not None else None})
        else:
            R.ok("flows-finite-nonnegative", len(v))
        # negative parameter => zero flow
        par = l["par"]
        if par is not None:
            pv = np.asarray(par.vals, dtype=float)
            neg = pv < 0
            if np.any(neg):
                R.count("negative_parameter_steps", int(np.sum(neg)))
                if np.any(v[neg] != 0):
                    i = int(np.argmax(neg & (v != 0)))
                    R.bad("negative-parameter-zero-flow", "%s:negative-par-nonzero-flow[%s]" % (prefix, tag), {"link": l["key"], "index": i, "par_value": float(pv[i]), "flow": float(v[i])})
                else:
                    R.ok("negative-parameter-zero-flow", int(np.sum(neg)))
    # over-draw
    for c in view.comps:
        if c["kind"] in ("src", "junc") or not c["out"]:
            continue
        x, OUT = c["vals"], c["OUT"]
        lim = x * (1 + 1e-12) + 1e-9 * np.maximum(1.0, x)
        bad = ~(OUT <= lim)
        bad &= np.isfinite(OUT) & np.isfinite(x)
        if np.any(bad):
            i = int(np.argmax(bad))
            R.bad("no-overdraw", "%s:overdraw[%s]" % (prefix, c["kind"]), {"comp": c["key"], "index": i, "stock": float(x[i]), "outflow": float(OUT[i]), "links": {str(l["key"]): float(l["vals"][i]) for l in c["out"]}})
        else:
            R.ok("no-overdraw", len(x))


# ----------------------------------------------------------------------------------------------
# requested fractions (documented conversion) and expected flows: C02 common factor, C03(b)
# ----------------------------------------------------------------------------------------------


def requested_fraction(view, l, cache):
    """Per-step fraction of the source compartment requested by link `l` (array over time), from the
    recorded parameter values and the documented conversion.  For a source compartment: number of people."""
    par = l["par"]
    key = id(par)
    if key in cache:
        return cache[key]
    v = np.array(par.vals, dtype=float, copy=True)
    v = np.where(v < 0, 0.0, v)
    T_ = float(par.timescale) if par.timescale is not None and np.isfinite(par.timescale) else 1.0
    dt = view.dt
    units = par.units
    with np.errstate(all="ignore"):
        if units in ("probability", "rate"):
            f = v * (dt / T_)
        elif units == "duration":
            f = np.where(v == 0, 0.0, dt / (v * T_))
        elif units == "number":
            amt = v * (dt / T_)
            links = view.par_links(par)
            if links and links[0]["src"]["kind"] == "src":
                f = amt
            else:
                den = np.sum([k["src"]["vals"] for k in links], axis=0)
                f = np.where(den != 0, amt / np.where(den != 0, den, 1.0), 0.0)
                f = np.where(v == 0, 0.0, f)
        else:
            f = None
    cache[key] = f
    return f


def check_flows(view, R, prefix="C03", rtol=1e-8, want=("flows",)):
    """Expected flow of every parameter-driven link out of ordinary / timed / source compartments, and the
    flush link of timed compartments, compared with the recorded flow."""
    cache = {}
    for c in view.comps:
        kind = c["kind"]
        if kind in ("junc", "sink") or not c["out"]:
            continue
        x = c["vals"]
        T = view.T
        drv = [l for l in c["out"] if l["par"] is not None]
        fr = {}
        skip = False
        for l in drv:
            f = requested_fraction(view, l, cache)
            if f is None:
                skip = True
            fr[id(l)] = f
        if skip:
            R.inc("flow-conversion")
            continue
        if kind == "src":
            for l in drv:
                _cmp_flow(view, R, prefix, l, fr[id(l)], rtol, "source")
            continue
        if kind == "ord":
            tot = np.sum([fr[id(l)] for l in drv], axis=0) if drv else np.zeros(T)
            with np.errstate(all="ignore"):
                s = np.where(tot > 1, 1.0 / np.where(tot > 1, tot, 1.0), 1.0)
            if np.any(tot > 1):
                R.count("rescaled_steps", int(np.sum(tot > 1)))
            for l in drv:
                with np.errstate(all="ignore"):
                    exp = fr[id(l)] * s * x
                exp = np.where(x == 0, 0.0, exp)
                _cmp_flow(view, R, prefix, l, exp, rtol, l["par"].units, stock=x)
                # common factor, ratio form (robust for tiny stocks)
            if len(drv) >= 2:
                a, b = drv[0], drv[1]
                lhs = a["vals"] * fr[id(b)]
                rhs = b["vals"] * fr[id(a)]
                with np.errstate(all="ignore"):
                    sc_ = np.maximum.reduce([np.abs(lhs), np.abs(rhs), np.full(T, 1e-300)])
                    ok = np.abs(lhs - rhs) <= 1e-9 * sc_
                ok |= ~np.isfinite(lhs) | ~np.isfinite(rhs)
                # flows in the subnormal range carry fewer than 53 significant bits: ratios are not judged there
                tiny = (np.abs(a["vals"]) < 1e-290) | (np.abs(b["vals"]) < 1e-290)
                ok |= tiny & (a["vals"] >= 0) & (b["vals"] >= 0)
                ok[-1] = True
                if not np.all(ok):
                    i = int(np.argmax(~ok))
                    R.bad("common-scaling-factor", "%s:ratio-not-preserved[ord]" % prefix, {"comp": c["key"], "index": i, "flows": [float(a["vals"][i]), float(b["vals"][i])], "requested": [float(fr[id(a)][i]), float(fr[id(b)][i])]})
                else:
                    R.ok("common-scaling-factor", T - 1)
                    R.count("ratio_checks_rescaled", int(np.sum(tot[:-1] > 1)))
            continue
        # timed compartment
        bins = c["bins"]
        if bins is None:
            R.inc("timed-bin-flows")
            continue
        nb = bins.shape[0]
        tot = np.zeros((nb, T))
        for l in drv:
            if l["timedlink"]:
                tot[1:, :] += fr[id(l)][None, :]
            else:
                tot += fr[id(l)][None, :]
        with np.errstate(all="ignore"):
            s = np.where(tot > 1, 1.0 / np.where(tot > 1, tot, 1.0), 1.0)
        n = s * bins
        out0 = np.zeros(T)
        for l in drv:
            with np.errstate(all="ignore"):
                per = n * fr[id(l)][None, :]
            per = np.where(bins == 0, 0.0, per)
            if l["timedlink"]:
                per[0, :] = 0.0
                if l["bins"] is not None and l["bins"].shape == per.shape:
                    _cmp_bins(view, R, prefix, l, per, rtol)
            else:
                out0 += per[0, :]
            _cmp_flow(view, R, prefix, l, per.sum(axis=0), rtol, "timed:" + str(l["par"].units), stock=x)
        fl = [l for l in c["out"] if l["flush"]]
        if fl:
            exp = np.maximum(0.0, bins[0, :] - out0)
            _cmp_flow(view, R, prefix, fl[0], exp, rtol, "flush", stock=x)
        if np.any(tot > 1):
            R.count("rescaled_steps_timed", int(np.sum(np.any(tot > 1, axis=0))))


def _cmp_flow(view, R, prefix, l, exp, rtol, tag, stock=None):
    got = l["vals"]
    T = view.T
    idx = slice(0, T)  # flows at the final index are computed as well
    floor = 1e-12 * np.maximum(1.0, stock if stock is not None else 1.0)
    with np.errstate(all="ignore"):
        ok = np.abs(got - exp) <= rtol * np.maximum(np.abs(got), np.abs(exp)) + floor
    both_bad = ~np.isfinite(exp)
    ok = ok | both_bad  # expected value not finite: inputs not finite -> not judged
    if not np.all(ok[idx]):
        i = int(np.argmax(~ok))
        par = l["par"]
        R.bad("flow=documented-conversion", "%s:flow-mismatch[%s]" % (prefix, tag), {"link": l["key"], "index": i, "t": float(view.t[i]), "recorded": float(got[i]), "expected": float(exp[i]), "par_value": float(par.vals[i]) if par is not None else None, "units": par.units if par is not None else None, "timescale": float(par.timescale) if par is not None else None, "dt": view.dt, "source_size": float(l["src"]["vals"][i])})
    else:
        R.ok("flow=documented-conversion", T)
        R.count("flow_steps[%s]" % tag.split(":")[-1], int(np.sum(got > 0)))
    if np.any(both_bad):
        R.count("flow_steps_not_judged_nonfinite_expected", int(np.sum(both_bad)))


def _cmp_bins(view, R, prefix, l, per, rtol):
    got = l["bins"]
    with np.errstate(all="ignore"):
        ok = np.abs(got - per) <= rtol * np.maximum(np.abs(got), np.abs(per)) + 1e-12
    ok |= ~np.isfinite(per)
    if not np.all(ok):
        b, i = np.argwhere(~ok)[0]
        R.bad("timedlink-per-bin", "%s:bin-flow-mismatch[timedlink]" % prefix, {"link": l["key"], "bin": int(b), "index": int(i), "recorded": float(got[b, i]), "expected": float(per[b, i])})
    else:
        R.ok("timedlink-per-bin", got.shape[1])


# ----------------------------------------------------------------------------------------------
# C04: junction splitting
# ----------------------------------------------------------------------------------------------


def check_junction_split(view, R, prefix="C04"):
    T = view.T
    for c in view.comps:
        if c["kind"] != "junc" or not c["out"]:
            continue
        I = c["IN"]
        outs = c["out"]
        props = []
        for l in outs:
            if l["par"] is None:
                props.append(None)
            else:
                v = np.array(l["par"].vals, dtype=float, copy=True)
                if np.any(v < 0):
                    R.count("junction_negative_proportion_steps", int(np.sum(v < 0)))
                props.append(np.where(v < 0, 0.0, v))  # a negative transition parameter produces zero flow
        pl = [p for p in props if p is not None]
        psum = np.sum(pl, axis=0) if pl else np.zeros(T)
        recv = I > 0
        R.count("junction_receiving_steps", int(np.sum(recv)))
        residual = c["residual_junction"]
        for l, p in zip(outs, props):
            with np.errstate(all="ignore"):
                if residual:
                    if p is None:
                        exp = np.where(psum < 1, I * (1 - psum), 0.0)
                    else:
                        exp = np.where(psum > 1, I * p / np.where(psum > 1, psum, 1.0), I * p)
                else:
                    exp = I * p / psum
            illposed = (psum <= 0) if not residual else np.zeros(T, dtype=bool)
            got = l["vals"]
            with np.errstate(all="ignore"):
                ok = np.abs(got - exp) <= 1e-9 * np.maximum(1.0, np.abs(I))
            ok |= illposed | ~np.isfinite(exp) | ~np.isfinite(I)
            if not np.all(ok):
                i = int(np.argmax(~ok))
                shape = "residual" if residual else "plain"
                which = "residual-link" if p is None else "proportion-link"
                regime = "sum>1" if psum[i] > 1 else ("sum<1" if psum[i] < 1 else "sum=1")
                R.bad("junction-split", "%s:split[%s,%s,%s]" % (prefix, shape, which, regime), {"junction": c["key"], "link": l["key"], "index": i, "inflow": float(I[i]), "proportions": [None if q is None else float(q[i]) for q in props], "recorded": float(got[i]), "expected": float(exp[i])})
            else:
                R.ok("junction-split", int(np.sum(recv)))
        if residual:
            R.count("residual_steps_sum>1", int(np.sum(recv & (psum > 1))))
            R.count("residual_steps_sum<1", int(np.sum(recv & (psum < 1))))
        else:
            R.count("plain_steps_sum!=1", int(np.sum(recv & (np.abs(psum - 1) > 1e-9))))
            R.count("plain_steps_with_zero_proportion", int(np.sum(recv & np.any([p == 0 for p in pl], axis=0))) if pl else 0)
        if any(l["dst"]["kind"] == "junc" for l in outs):
            R.count("junction_chain_steps", int(np.sum(recv)))


# ----------------------------------------------------------------------------------------------
# C05: timed compartments (bin level, one step ahead from the recorded bins)
# ----------------------------------------------------------------------------------------------


def expected_bins(D_years, dt):
    """n = max(1, ceil(D/dt)), with n = k when D/dt is k up to rounding error."""
    import math

    n = D_years / dt
    k = round(n)
    if abs(n - k) <= 1e-9 * max(1.0, abs(k)):
        return max(1, int(k))
    return max(1, int(math.ceil(n)))


def check_timed_bins(view, R, prefix="C05", rtol=1e-9):
    cache = {}
    for c in view.comps:
        if c["kind"] != "timed":
            continue
        bins = c["bins"]
        if bins is None:
            R.inc("bin-level-model")
            continue
        nb, T = bins.shape
        # --- row count from the (public) duration parameter value
        par = view.pars.get((c["pop"], c["group"]))
        if par is not None:
            D = float(par.vals[0]) * float(par.timescale if par.timescale is not None and np.isfinite(par.timescale) else 1.0)
            n_exp = expected_bins(D, view.dt)
            ratio = D / view.dt
            regime = "integer" if abs(ratio - round(ratio)) <= 1e-9 * max(1.0, abs(round(ratio))) else ("<1" if ratio < 1 else "non-integer")
            R.count("row_count_checks[%s]" % regime)
            if nb != n_exp:
                R.bad("row-count", "%s:rows(D/dt %s)=%+d" % (prefix, regime, nb - n_exp), {"comp": c["key"], "duration_years": D, "dt": view.dt, "rows": nb, "expected": n_exp})
            else:
                R.ok("row-count")
        # --- uniform initial distribution
        if np.any(np.abs(bins[:, 0] - bins[:, 0].mean()) > 1e-12 * max(1.0, abs(bins[:, 0].mean()))):
            R.bad("initial-uniform", "%s:initial-occupants-not-uniform" % prefix, {"comp": c["key"], "bins0": bins[:, 0].tolist()})
        else:
            R.ok("initial-uniform")
        # --- one-step-ahead keyring model
        drv = [l for l in c["out"] if l["par"] is not None]
        fr = {id(l): requested_fraction(view, l, cache) for l in drv}
        if any(v is None for v in fr.values()):
            R.inc("bin-level-model")
            continue
        tot = np.zeros((nb, T))
        for l in drv:
            if l["timedlink"]:
                tot[1:, :] += fr[id(l)][None, :]
            else:
                tot += fr[id(l)][None, :]
        with np.errstate(all="ignore"):
            s = np.where(tot > 1, 1.0 / np.where(tot > 1, tot, 1.0), 1.0)
        n = s * bins
        out = np.zeros((nb, T))
        for l in drv:
            with np.errstate(all="ignore"):
                per = np.where(bins == 0, 0.0, n * fr[id(l)][None, :])
            if l["timedlink"]:
                per[0, :] = 0.0
            out += per
        flush = np.maximum(0.0, bins[0, :] - out[0, :])
        out[0, :] += flush
        pred = bins - out  # after outflows, before arrivals and the shift
        for l in c["in"]:
            if l["timedlink"] and l["bins"] is not None:
                lb = l["bins"]
                m = lb.shape[0]
                if m == nb:
                    pred = pred + lb
                elif nb > m:
                    pred[:m, :] = pred[:m, :] + lb
                else:
                    pred = pred + lb[:nb, :]
                    pred[-1, :] = pred[-1, :] + lb[nb:, :].sum(axis=0)
                    R.count("timed_arrivals_from_longer_duration")
                if m != nb:
                    R.count("timed_links_between_different_durations")
        if nb > 1:
            pred[:-1, :] = pred[1:, :]
            pred[-1, :] = 0.0
        for l in c["in"]:
            if not (l["timedlink"] and l["bins"] is not None):
                pred[-1, :] = pred[-1, :] + l["vals"]
        pred = np.where(pred < 0, 0.0, pred)
        if T >= 2:
            got = bins[:, 1:]
            exp = pred[:, :-1]
            scale = np.maximum.reduce([np.ones_like(got), np.abs(got), np.abs(exp), np.abs(bins[:, :-1]), np.broadcast_to(np.abs(c["IN"][:-1]), got.shape)])
            with np.errstate(all="ignore"):
                ok = np.abs(got - exp) <= rtol * scale
            ok |= ~np.isfinite(exp)
            if not np.all(ok):
                b, i = np.argwhere(~ok)[0]
                R.bad("bin-level-model", "%s:bin-update-mismatch[%s]" % (prefix, "last-bin" if b == nb - 1 else ("first-bin" if b == 0 else "middle-bin")), {"comp": c["key"], "bin": int(b), "rows": nb, "index": int(i), "recorded_next": float(got[b, i]), "expected_next": float(exp[b, i]), "bins_now": bins[:, i].tolist()[:12]})
            else:
                R.ok("bin-level-model", T - 1)
                R.count("bin_steps_checked", int(nb * (T - 1)))
                if np.any(flush[:-1] > 0):
                    R.count("steps_with_timed_release", int(np.sum(flush[:-1] > 0)))


def check_occupancy_bound(view, R, prefix="C05"):
    """Public surface only: occupancy of each (population, duration group) never exceeds the arrivals of the
    preceding n steps plus the not-yet-expired share of the initial occupants."""
    groups = {}
    for c in view.comps:
        if c["group"] and c["kind"] in ("timed", "junc"):
            groups.setdefault((c["pop"], c["group"]), []).append(c)
    for (pop, g), members in groups.items():
        par = view.pars.get((pop, g))
        if par is None:
            continue
        D = float(par.vals[0]) * float(par.timescale if par.timescale is not None and np.isfinite(par.timescale) else 1.0)
        n = expected_bins(D, view.dt)
        keys = {m["key"] for m in members}
        G = np.sum([m["vals"] for m in members if m["kind"] == "timed"], axis=0)
        A = np.zeros(view.T)
        for m in members:
            for l in m["in"]:
                if l["src"]["key"] not in keys:
                    A = A + l["vals"]
        T = view.T
        cs = np.concatenate([[0.0], np.cumsum(A)])
        idx = np.arange(T)
        lo = np.maximum(0, idx - n)
        window = cs[idx] - cs[lo]
        init_share = G[0] * np.maximum(0.0, (n - idx) / n)
        bound = window + init_share
        # tolerance relative to the largest magnitude that went through the group (cancellation residue of a huge cohort
        # that has just been flushed is of the order of 1e-16 of that cohort)
        big = max(1.0, float(np.nanmax(np.abs(A))) if T else 1.0, float(np.nanmax(np.abs(G))) if T else 1.0)
        ok = G <= bound * (1 + 1e-9) + 1e-9 * big
        ok |= ~np.isfinite(bound)
        if not np.all(ok):
            i = int(np.argmax(~ok))
            R.bad("occupancy-bound", "%s:occupancy-exceeds-recent-arrivals" % prefix, {"pop": pop, "group": g, "index": i, "n": n, "occupancy": float(G[i]), "bound": float(bound[i]), "arrivals_window": A[max(0, i - n) : i].tolist()[:20], "initial": float(G[0])})
        else:
            R.ok("occupancy-bound", T)
            if np.any(A > 0):
                R.count("occupancy_steps_with_arrivals", int(np.sum(A > 0)))

"""Independent evaluator for parameter-function strings: a recursive walk over Python's ast with numpy
arithmetic (0/x = 0 for every x).  Shares nothing with atomica.function_parser (no compile/eval)."""

import ast
import math

import numpy as np


class DontCare(Exception):
    """The expression leaves ordinary real arithmetic (x/0 with x != 0, sqrt of a negative, ...)."""


def parse(src):
    return ast.parse(src.replace(":", "___"), mode="eval")


def names(src):
    return {n.id for n in ast.walk(parse(src)) if isinstance(n, ast.Name)}


def _div(a, b, strict, info=None):
    a_, b_ = np.broadcast_arrays(np.asarray(a, dtype=float), np.asarray(b, dtype=float))
    if info is not None and info.get("inexact") and np.any((np.abs(b_) <= 1e-9 * max(1.0, info.get("scale", 1.0))) & (a_ != 0)):
        info["fragile"] = True  # a denominator that may be zero, or have either sign, one unit in the last place of its operands away
    if strict and np.any((b_ == 0) & (a_ != 0)):
        raise DontCare()
    out = np.zeros(a_.shape)
    nz = a_ != 0
    with np.errstate(all="ignore"):
        out[nz] = a_[nz] / b_[nz]
    return out if out.shape else float(out)


def _near_not_at(x, info):
    """x (a distance to a discontinuity, in units of the operands) is tiny but not exactly zero somewhere: a last-bit
    difference between two correct floating-point evaluations can then land on either side."""
    x = np.abs(np.asarray(x, dtype=float))
    tol = 1e-9 * max(1.0, info.get("scale", 1.0))
    if info.get("inexact"):
        # an operand went through pow / exp / sin / cos / ln, which are not correctly rounded and differ in the last bit between
        # scalar (libm) and array (numpy) evaluation (10**-1 is 0.1, numpy.power(10.0, -1.0) is 0.09999999999999999): then even
        # a distance that looks like exactly zero here may be one unit in the last place there
        return bool(np.any(x <= tol))
    return bool(np.any((x > 0) & (x <= tol)))


def evaluate(node, env, strict=True, info=None):
    """info (optional dict) collects 'scale' = the largest magnitude of any intermediate value (cancellation makes the
    absolute error of a result proportional to it) and 'fragile' = some discontinuous operation (floor, //, %, a
    comparison) was evaluated within rounding distance of, but not exactly at, its discontinuity."""
    if info is None:
        return _evaluate(node, env, strict, None)
    v = _evaluate(node, env, strict, info)
    return v


def _note(v, info):
    if info is not None:
        with np.errstate(all="ignore"):
            a = np.abs(np.asarray(v, dtype=float))
            if not np.all(np.isfinite(a)):
                info["nonfinite"] = True  # an intermediate value left the range of double precision (or is undefined)
            a = a[np.isfinite(a)]
            if a.size:
                info["scale"] = max(info.get("scale", 0.0), float(a.max()))
    return v


def _evaluate(node, env, strict, info):
    return _note(_evaluate_inner(node, env, strict, info), info)


def _evaluate_inner(node, env, strict, info):
    def evaluate(n, e, s):  # noqa - recursion goes through the noting wrapper
        return _evaluate(n, e, s, info)

    if isinstance(node, str):
        node = parse(node)
    if isinstance(node, ast.Expression):
        return evaluate(node.body, env, strict)
    if isinstance(node, ast.Constant):
        return float(node.value)
    if isinstance(node, ast.Name):
        if node.id == "pi":
            return math.pi
        return env[node.id]
    if isinstance(node, ast.UnaryOp):
        v = evaluate(node.operand, env, strict)
        if isinstance(node.op, ast.USub):
            return -v
        if isinstance(node.op, ast.UAdd):
            return +v
        raise DontCare()
    if isinstance(node, ast.BinOp):
        a = evaluate(node.left, env, strict)
        b = evaluate(node.right, env, strict)
        with np.errstate(all="ignore"):
            if isinstance(node.op, ast.Add):
                return a + b
            if isinstance(node.op, ast.Sub):
                return a - b
            if isinstance(node.op, ast.Mult):
                return a * b
            if isinstance(node.op, ast.Div):
                return _div(a, b, strict, info)
            if isinstance(node.op, ast.Pow):
                a_, b_ = np.broadcast_arrays(np.asarray(a, dtype=float), np.asarray(b, dtype=float))
                if strict and (np.any((a_ < 0) & (b_ != np.floor(b_))) or np.any((a_ == 0) & (b_ < 0))):
                    raise DontCare()
                if info is not None:
                    info["inexact"] = True
                return np.power(a, b)
            if isinstance(node.op, ast.FloorDiv):
                if np.any(np.asarray(b) == 0):
                    raise DontCare()
                if info is not None:
                    q = np.asarray(a, dtype=float) / np.asarray(b, dtype=float)
                    if _near_not_at((q - np.round(q)) * np.abs(np.asarray(b, dtype=float)), info) or _near_not_at(np.where(np.round(q) == q, 0.0, 0.0) + (np.asarray(a, dtype=float) - np.round(q) * np.asarray(b, dtype=float)), info):
                        info["fragile"] = True
                return np.floor_divide(a, b)
            if isinstance(node.op, ast.Mod):
                if np.any(np.asarray(b) == 0):
                    raise DontCare()
                if info is not None:
                    q = np.asarray(a, dtype=float) / np.asarray(b, dtype=float)
                    if _near_not_at(np.asarray(a, dtype=float) - np.round(q) * np.asarray(b, dtype=float), info):
                        info["fragile"] = True
                return np.mod(a, b)
        raise DontCare()
    if isinstance(node, ast.Compare):
        # a chain a < b < c is (a < b) and (b < c): the product of the pairwise comparisons
        operands = [evaluate(node.left, env, strict)] + [evaluate(c, env, strict) for c in node.comparators]
        out = 1.0
        for a, b, op in zip(operands[:-1], operands[1:], node.ops):
            if type(op) not in (ast.Lt, ast.LtE, ast.Gt, ast.GtE, ast.Eq, ast.NotEq):
                raise DontCare()
            if info is not None and _near_not_at(np.asarray(a, dtype=float) - np.asarray(b, dtype=float), info):
                info["fragile"] = True
            if info is not None and np.any(np.asarray(a, dtype=float) == np.asarray(b, dtype=float)):
                info["tie"] = True  # exact equality of the two sides (callers that recompute the operands themselves may want to skip)
            f = {ast.Lt: np.less, ast.LtE: np.less_equal, ast.Gt: np.greater, ast.GtE: np.greater_equal, ast.Eq: np.equal, ast.NotEq: np.not_equal}[type(op)]
            out = out * (f(a, b) * 1.0)
        if info is not None and len(node.ops) > 1:
            info["chain"] = True
        return out
    if isinstance(node, ast.Call):
        name = node.func.id
        args = [evaluate(a, env, strict) for a in node.args]
        with np.errstate(all="ignore"):
            if name == "max":
                out = args[0]
                for a in args[1:]:
                    out = np.maximum(out, a)  # (NaN propagates, as in real arithmetic on an undefined operand)
                return out
            if name == "min":
                out = args[0]
                for a in args[1:]:
                    out = np.minimum(out, a)
                return out
            if name == "exp":
                if info is not None:
                    info["inexact"] = True
                return np.exp(args[0])
            if name == "sqrt":
                if strict and np.any(np.asarray(args[0]) < 0):
                    raise DontCare()
                return np.sqrt(args[0])
            if name == "floor":
                if info is not None and _near_not_at(np.asarray(args[0], dtype=float) - np.round(np.asarray(args[0], dtype=float)), info):
                    info["fragile"] = True
                return np.floor(args[0])
            if name == "cos":
                if info is not None:
                    info["inexact"] = True
                return np.cos(args[0])
            if name == "sin":
                if info is not None:
                    info["inexact"] = True
                return np.sin(args[0])
            if name == "ln":
                if strict and np.any(np.asarray(args[0]) <= 0):
                    raise DontCare()
                if info is not None:
                    info["inexact"] = True
                return np.log(args[0])
            if name == "sdiv":
                return _div(args[0], args[1], strict, info)
        raise DontCare()
    raise DontCare()

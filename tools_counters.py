#!/venv/bin/python
"""usage: tools_counters.py <ID> [substring]  - aggregated monitor counters of the last run of a check (from .work/<ID>/*.jsonl)"""
import glob, json, sys, collections
c = collections.Counter(); sub = collections.Counter(); exc = collections.Counter()
import os
dirs = sorted([d for d in glob.glob(".work/%s" % sys.argv[1]) + glob.glob(".work/scratch-%s-*" % sys.argv[1])], key=os.path.getmtime)
print("reading", dirs[-1])
for f in glob.glob(dirs[-1] + "/*.jsonl"):
    for line in open(f):
        try: d = json.loads(line)
        except Exception: continue
        for k, v in (d.get("stats") or {}).items():
            if isinstance(v, (int, float)): c[k] += v
        for r in d.get("records", []):
            sub[(r["sub"], r["verdict"])] += r.get("n", 1)
        if d.get("excluded"): exc[d["excluded"]] += 1
        if d.get("error"): exc["ERROR " + d["error"][:80]] += 1
pat = sys.argv[2] if len(sys.argv) > 2 else ""
for k, v in sorted(c.items()):
    if pat in k: print("%-70s %s" % (k, v))
print("--- excluded/errors:", dict(exc))

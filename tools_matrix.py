#!/venv/bin/python
"""Runs every deliberate break (mutants/*.patch, seeded/*/patch.diff) against the check(s) of the property it targets and
writes matrix.json + a markdown table (DESIGN section 12)."""
import json, os, subprocess, sys, glob, re
ROOT = os.path.dirname(os.path.abspath(__file__))
sys.path.insert(0, ROOT)
from av.selftest import run
targets = []
for p in sorted(glob.glob(os.path.join(ROOT, "mutants", "*.patch"))):
    pid = "C" + re.match(r"c(\d+)_", os.path.basename(p)).group(1)
    targets.append((os.path.basename(p), p, [pid]))
for d in sorted(glob.glob(os.path.join(ROOT, "seeded", "*"))):
    meta = os.path.join(d, "meta.json")
    if os.path.exists(meta):
        m = json.load(open(meta))
        targets.append(("seeded/" + os.path.basename(d), os.path.join(d, "patch.diff"), m.get("checks", [m["property"]])))
only = sys.argv[1:] 
out = {}
if os.path.exists(os.path.join(ROOT, "matrix.json")):
    out = json.load(open(os.path.join(ROOT, "matrix.json")))
for name, path, ids in targets:
    if only and not any(o in name for o in only):
        continue
    res = run(path, ids)
    if res is None:
        out[name] = {"error": "patch does not apply"}
    else:
        out[name] = {pid: {"rc": rc, "mechanisms": mech[:6]} for pid, (rc, mech) in res.items()}
    print(name, out[name], flush=True)
    json.dump(out, open(os.path.join(ROOT, "matrix.json"), "w"), indent=1, sort_keys=True)

#!/bin/bash
# usage: tools_sweep.sh <tier> <seed>...   runs every check with the given seeds (evidence not rewritten), prints one line per run
tier=$1; shift
for seed in "$@"; do
  for id in $(jq -r '.checks[].property_id' MANIFEST.json); do
    out=$(VERIF_SEED=$seed ./check $id --tier $tier --no-evidence 2>&1)
    rc=$?
    echo "seed=$seed $id rc=$rc $(echo "$out" | grep -E "^$id tier" | head -1)"
    if [ $rc -ne 0 ]; then echo "$out" | grep -E "VIOLATION|INCONCLUSIVE" | sort | uniq -c | head -8; fi
  done
done

#!/venv/bin/python
"""Confirm and register a seeded change.  usage: tools_seed.py <src_dir> <name> <property> [<extra check ids>...] [--skip-tests]
 src_dir holds patch.diff, demo.py, notes.md.  Steps: demo fails with the change / passes without; the 76 baseline-stable
 tests pass with the change; then the named checks are run against the change; everything is written to seeded/<name>/."""
import json, os, shutil, subprocess, sys, tempfile, time
ROOT = os.path.dirname(os.path.abspath(__file__))
sys.path.insert(0, ROOT)
args = [a for a in sys.argv[1:] if not a.startswith("--")]
skip_tests = "--skip-tests" in sys.argv
src, name, prop = args[0], args[1], args[2]
checks = [prop] + args[3:]
dst = os.path.join(ROOT, "seeded", name)
os.makedirs(dst, exist_ok=True)
for f in ("patch.diff", "demo.py", "notes.md"):
    if os.path.exists(os.path.join(src, f)):
        shutil.copy(os.path.join(src, f), os.path.join(dst, f))
patch = os.path.join(dst, "patch.diff")
scratch = tempfile.mkdtemp(prefix="av_seed_", dir="/tmp")
wt = scratch + "/wt"
meta = {"property": prop, "checks": checks, "source": "independent sub-agent (saw only the property text and its own worktree)"}
try:
    subprocess.check_call(["git", "-C", "/repo", "worktree", "add", "-q", "--detach", wt])
    r = subprocess.run(["git", "-C", wt, "apply", "--3way", patch], capture_output=True, text=True)
    if r.returncode != 0:
        r = subprocess.run(["git", "-C", wt, "apply", patch], capture_output=True, text=True)
    meta["applies_to_current_repo"] = r.returncode == 0
    if r.returncode != 0:
        print("PATCH DOES NOT APPLY", r.stderr[:300])
    else:
        env = dict(os.environ, PYTHONPATH=wt, MPLBACKEND="agg")
        demo = os.path.join(dst, "demo.py")
        # demos hard-code their own worktree path sometimes: run them with cwd = worktree and PYTHONPATH = worktree
        txt = open(demo).read()
        import re
        txt2 = re.sub(r"/tmp/seedwork(?:[2-9]|10)?/C\d+/wt", wt, txt)
        open(scratch + "/demo_mut.py", "w").write(txt2)
        open(scratch + "/demo_base.py", "w").write(re.sub(r"/tmp/seedwork(?:[2-9]|10)?/C\d+/wt", "/repo", txt))
        a = subprocess.run(["/venv/bin/python", scratch + "/demo_mut.py"], cwd=wt, env=env, capture_output=True, text=True, timeout=900)
        b = subprocess.run(["/venv/bin/python", scratch + "/demo_base.py"], cwd="/repo", env=dict(os.environ, PYTHONPATH="/repo", MPLBACKEND="agg"), capture_output=True, text=True, timeout=900)
        meta["demo_with_change_rc"] = a.returncode
        meta["demo_without_change_rc"] = b.returncode
        meta["demo_output_with_change"] = (a.stdout + a.stderr)[-600:]
        print("demo with change rc=%s, without rc=%s" % (a.returncode, b.returncode))
        if not skip_tests:
            base = json.load(open("/root/.vp/BASELINE.json"))
            ids = []
            for s in base["stable_pass"]:
                mod, test = s.split("::", 1)
                ids.append(mod.replace(".", "/") + ".py::" + test)
            t0 = time.time()
            p = subprocess.run(["/venv/bin/python", "-m", "pytest", "-q", "-p", "no:cacheprovider", "--no-cov", "-n", "8", "--timeout=900"] + ids, cwd=wt, env=env, capture_output=True, text=True)
            tail = p.stdout.strip().splitlines()[-1] if p.stdout.strip() else ""
            meta["baseline_76_with_change"] = tail
            meta["baseline_76_pass"] = p.returncode == 0
            print("baseline-stable tests with change:", tail, "(%.0fs)" % (time.time() - t0))
        from av.selftest import run
        res = {}
        for pid in checks:
            cmd = [os.path.join(ROOT, "check"), pid, "--tier", "quick", "--repo", wt, "--no-evidence"]
            q = subprocess.run(cmd, capture_output=True, text=True, cwd=ROOT)
            mech = sorted({l.split("mechanism=")[-1] for l in q.stdout.splitlines() if l.startswith("VIOLATION")})
            res[pid] = {"rc": q.returncode, "mechanisms": mech[:8]}
            print(pid, "CAUGHT" if q.returncode == 1 else "rc=%s" % q.returncode, mech[:4])
        meta["checks_result"] = res
        meta["what_i_ran"] = "tools_seed.py: demo with/without the change, the 76 baseline-stable tests with the change, ./check <id> --tier quick --repo <scratch worktree with the change>"
finally:
    subprocess.run(["git", "-C", "/repo", "worktree", "remove", "--force", wt], capture_output=True)
    shutil.rmtree(scratch, ignore_errors=True)
    subprocess.run(["git", "-C", "/repo", "worktree", "prune"], capture_output=True)
old = {}
if os.path.exists(os.path.join(dst, "meta.json")):
    old = json.load(open(os.path.join(dst, "meta.json")))
if old.get("checks_result") and meta.get("checks_result") and old["checks_result"] != meta["checks_result"] and any(v.get("rc") != 1 for k, v in old["checks_result"].items() if k == prop):
    meta["checks_result_before_strengthening"] = old.get("checks_result_before_strengthening", old["checks_result"])
old.update(meta)
json.dump(old, open(os.path.join(dst, "meta.json"), "w"), indent=1)
